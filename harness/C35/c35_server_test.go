//go:build verif

package server

import (
	"bytes"
	"context"
	"encoding/hex"
	"errors"
	"fmt"
	"io"
	"log"
	"net"
	"os"
	"os/exec"
	"path/filepath"
	"runtime"
	"runtime/debug"
	"strconv"
	"strings"
	"sync"
	"testing"
	"time"
	"unicode"
	"unicode/utf8"

	"github.com/jackc/pgproto3/v2"

	"github.com/kafscale/platform/addons/processors/sql-processor/internal/config"
	"github.com/kafscale/platform/addons/processors/sql-processor/internal/decoder"
	"github.com/kafscale/platform/addons/processors/sql-processor/internal/discovery"
	kafsql "github.com/kafscale/platform/addons/processors/sql-processor/internal/sql"
	gen "github.com/kafscale/platform/addons/processors/sql-processor/internal/verifc35gen"
	"github.com/kafscale/platform/addons/processors/sql-processor/internal/verifkit"
)

type c35Lister struct{}

func (c35Lister) ListCompleted(ctx context.Context) ([]discovery.SegmentRef, error) { return nil, nil }

type c35Decoder struct{}

func (c35Decoder) Decode(ctx context.Context, segmentKey, indexKey string, topic string, partition int32) ([]decoder.Record, error) {
	return nil, nil
}

type c35Resolver struct{}

func (c35Resolver) Topics(ctx context.Context) ([]string, error) { return []string{"orders", "t"}, nil }
func (c35Resolver) Partitions(ctx context.Context, topic string) ([]int32, error) {
	return []int32{0}, nil
}

// TestVerifC35ServerChild runs the real SQL server (New + handleConnection per
// accepted connection, exactly the body of Run's accept loop) in a process of
// its own; storage is replaced by empty fakes so that no S3/etcd is needed.
func TestVerifC35ServerChild(t *testing.T) {
	portFile := os.Getenv("VERIF_C35S_PORTFILE")
	if portFile == "" {
		t.Skip("server child: started by TestVerifC35Server only")
	}
	// a statement is at most a few KiB here (200 nested EXPLAINs need well under 1 MiB of stack, race detector included); with
	// the default limit of 1 GiB a runaway recursion ends the process just the same, but only after minutes of stack copying
	// and scanning, longer than this leg's socket watchdogs
	debug.SetMaxStack(c35MaxStack)
	c35sHeapGuard()
	cfg := config.Config{}
	cfg.Server.ServerVersion = "15.0"
	cfg.Server.ClientEncoding = "UTF8"
	cfg.Query.DefaultLimit = 100
	cfg.Query.MaxUnbounded = 1000
	s := New(cfg, log.New(io.Discard, "", 0))
	s.lister, s.listerInit = c35Lister{}, true
	s.decoder, s.decoderInit = c35Decoder{}, true
	s.resolver, s.resolverInit = c35Resolver{}, true
	ln, err := net.Listen("tcp", "127.0.0.1:0")
	if err != nil {
		t.Fatalf("child listen: %v", err)
	}
	if err := os.WriteFile(portFile+".tmp", []byte(ln.Addr().String()), 0o644); err != nil {
		t.Fatal(err)
	}
	if err := os.Rename(portFile+".tmp", portFile); err != nil {
		t.Fatal(err)
	}
	go func() { // the parent closes our stdin to stop us
		io.Copy(io.Discard, os.Stdin)
		ln.Close()
	}()
	ctx := context.Background()
	for {
		conn, err := ln.Accept()
		if err != nil {
			return
		}
		go s.handleConnection(ctx, conn) // as in (*Server).Run
	}
}

// c35Out collects the child's stdout+stderr; it is read while the child runs.
type c35Out struct {
	mu sync.Mutex
	b  bytes.Buffer
}

func (o *c35Out) Write(p []byte) (int, error) {
	o.mu.Lock()
	defer o.mu.Unlock()
	return o.b.Write(p)
}

func (o *c35Out) String() string {
	o.mu.Lock()
	defer o.mu.Unlock()
	return o.b.String()
}

type c35Child struct {
	cmd    *exec.Cmd
	stdin  io.WriteCloser
	addr   string
	out    *c35Out
	exited chan struct{}
	// lost: the last attacker text whose connection ended abnormally while the
	// process was still seen alive (a dying process can outlive that connection)
	lostText, lostTransport string
}

// dying waits (bounded) for the first sign that the process is going down: its
// exit, or the runtime's panic / fatal error banner on stderr. A handler's
// deferred conn.Close runs before the runtime prints the panic and exits, so the
// attacker can see its connection closed while the process still answers others.
func (c *c35Child) dying(wait time.Duration) bool {
	deadline := time.Now().Add(wait)
	for {
		select {
		case <-c.exited:
			return true
		default:
		}
		if out := c.out.String(); strings.Contains(out, "panic: ") || strings.Contains(out, "fatal error: ") {
			return true
		}
		if time.Now().After(deadline) {
			return false
		}
		time.Sleep(10 * time.Millisecond)
	}
}

func c35StartChild(dir string, n int) (*c35Child, error) {
	portFile := filepath.Join(dir, fmt.Sprintf("port-%d", n))
	cmd := exec.Command(os.Args[0], "-test.run=^TestVerifC35ServerChild$", "-test.timeout=60m")
	cmd.Env = append(os.Environ(), "VERIF_C35S_PORTFILE="+portFile)
	stdin, err := cmd.StdinPipe()
	if err != nil {
		return nil, err
	}
	c := &c35Child{cmd: cmd, stdin: stdin, out: &c35Out{}, exited: make(chan struct{})}
	cmd.Stdout, cmd.Stderr = c.out, c.out
	if err := cmd.Start(); err != nil {
		return nil, err
	}
	go func() { cmd.Wait(); close(c.exited) }()
	deadline := time.Now().Add(60 * time.Second) // watchdog for a sentinel (port file), never an oracle
	for time.Now().Before(deadline) {
		if b, err := os.ReadFile(portFile); err == nil {
			c.addr = string(b)
			return c, nil
		}
		select {
		case <-c.exited:
			return nil, fmt.Errorf("server child exited during start: %s", c.out.String())
		case <-time.After(20 * time.Millisecond):
		}
	}
	c.stop()
	return nil, errors.New("server child did not publish its port")
}

func (c *c35Child) stop() {
	c.stdin.Close()
	select {
	case <-c.exited:
	case <-time.After(10 * time.Second):
		c.cmd.Process.Kill()
		<-c.exited
	}
}

func (c *c35Child) dead(wait time.Duration) bool {
	select {
	case <-c.exited:
		return true
	case <-time.After(wait):
		return false
	}
}

type c35Client struct {
	conn net.Conn
	fe   *pgproto3.Frontend
}

const c35MaxStack = 16 << 20

// c35sHeapLimit: live heap above which a child of this leg ends itself as "out of
// memory" (statements are a few KiB, storage is faked empty); without it a runaway
// allocation would exhaust the machine before the kernel ends the process.
const c35sHeapLimit = 3 << 30

func c35sHeapGuard() {
	debug.SetMemoryLimit(c35sHeapLimit)
	go func() {
		var ms runtime.MemStats
		for {
			time.Sleep(200 * time.Millisecond)
			runtime.ReadMemStats(&ms)
			if ms.HeapAlloc > c35sHeapLimit {
				fmt.Fprintf(os.Stderr, "fatal error: verif heap guard: out of memory (live heap %d bytes > limit %d)\n", ms.HeapAlloc, uint64(c35sHeapLimit))
				os.Exit(96)
			}
		}
	}()
}

const c35IO = 30 * time.Second // watchdog on socket I/O; expiry is never a verdict by itself

func c35Dial(addr string) (*c35Client, error) {
	conn, err := net.DialTimeout("tcp", addr, 5*time.Second)
	if err != nil {
		return nil, err
	}
	c := &c35Client{conn: conn, fe: pgproto3.NewFrontend(pgproto3.NewChunkReader(conn), conn)}
	conn.SetDeadline(time.Now().Add(c35IO))
	if err := c.fe.Send(&pgproto3.StartupMessage{ProtocolVersion: pgproto3.ProtocolVersionNumber, Parameters: map[string]string{"user": "verif"}}); err != nil {
		conn.Close()
		return nil, err
	}
	if _, err := c.untilReady(); err != nil {
		conn.Close()
		return nil, err
	}
	return c, nil
}

// untilReady collects message kinds up to ReadyForQuery.
func (c *c35Client) untilReady() ([]string, error) {
	var kinds []string
	for {
		c.conn.SetDeadline(time.Now().Add(c35IO))
		msg, err := c.fe.Receive()
		if err != nil {
			return kinds, err
		}
		switch m := msg.(type) {
		case *pgproto3.ReadyForQuery:
			return kinds, nil
		case *pgproto3.ErrorResponse:
			kinds = append(kinds, "error:"+m.Message)
		case *pgproto3.CommandComplete:
			kinds = append(kinds, "complete:"+string(m.CommandTag))
		default:
			kinds = append(kinds, fmt.Sprintf("%T", msg))
		}
	}
}

func (c *c35Client) simple(q string) ([]string, error) {
	c.conn.SetDeadline(time.Now().Add(c35IO))
	if err := c.fe.Send(&pgproto3.Query{String: q}); err != nil {
		return nil, err
	}
	return c.untilReady()
}

func (c *c35Client) extended(q string) ([]string, error) {
	c.conn.SetDeadline(time.Now().Add(c35IO))
	for _, m := range []pgproto3.FrontendMessage{&pgproto3.Parse{Name: "s1", Query: q}, &pgproto3.Describe{ObjectType: 'S', Name: "s1"},
		&pgproto3.Bind{PreparedStatement: "s1"}, &pgproto3.Execute{}, &pgproto3.Sync{}} {
		if err := c.fe.Send(m); err != nil {
			return nil, err
		}
	}
	return c.untilReady()
}

// alive: the bystander's round trip that every healthy server answers.
func (c *c35Client) alive() error {
	kinds, err := c.simple("SET verif = 1")
	if err != nil {
		return err
	}
	if len(kinds) != 1 || kinds[0] != "complete:SET" {
		return fmt.Errorf("unexpected answer to SET: %v", kinds)
	}
	return nil
}

func c35Stable(s string) string {
	var b strings.Builder
	for i := 0; i < len(s); {
		r, w := utf8.DecodeRuneInString(s[i:])
		switch {
		case r == utf8.RuneError && w == 1:
			b.WriteByte('?')
		case r >= 0x80 && utf8.RuneLen(unicode.ToLower(r)) != w:
			b.WriteString([]string{"", "", "é", "€", "😀"}[w])
		default:
			b.WriteString(s[i : i+w])
		}
		i += w
	}
	return b.String()
}

func c35ParsePanics(q string) (msg string) {
	defer func() {
		if p := recover(); p != nil {
			msg = fmt.Sprint(p)
		}
	}()
	kafsql.Parse(q)
	return ""
}

// TestVerifC35ClassifyChild parses the texts of a file (one hex string per line)
// in a process of its own, because the text that killed the server may kill any
// process that parses it. Per text it logs the index first and then "ok" or the
// recovered panic.
func TestVerifC35ClassifyChild(t *testing.T) {
	in := os.Getenv("VERIF_C35S_CLASSIFY")
	if in == "" {
		t.Skip("classification child: started by TestVerifC35Server only")
	}
	debug.SetMaxStack(c35MaxStack)
	c35sHeapGuard()
	raw, err := os.ReadFile(in)
	if err != nil {
		t.Fatal(err)
	}
	out, err := os.OpenFile(in+".out", os.O_CREATE|os.O_WRONLY|os.O_APPEND, 0o644)
	if err != nil {
		t.Fatal(err)
	}
	defer out.Close()
	for i, line := range strings.Fields(string(raw)) {
		text, err := hex.DecodeString(strings.TrimPrefix(line, "x"))
		if err != nil {
			t.Fatal(err)
		}
		fmt.Fprintf(out, "start %d\n", i)
		fmt.Fprintf(out, "done %d %s\n", i, strconv.Quote(c35ParsePanics(string(text))))
	}
}

var c35ClassifyRuns int

// c35ParseOutcomes tells, per text, what Parse does with it in a fresh process:
// "" = returns, "panic:<msg>", or "death:<kind>" when the process does not survive it.
func c35ParseOutcomes(dir string, texts []string) []string {
	c35ClassifyRuns++
	res := make([]string, len(texts))
	for from := 0; from < len(texts); {
		in := filepath.Join(dir, fmt.Sprintf("classify-%d-%d", c35ClassifyRuns, from))
		var sb strings.Builder
		for _, tx := range texts[from:] {
			fmt.Fprintf(&sb, "x%x\n", tx)
		}
		if err := os.WriteFile(in, []byte(sb.String()), 0o644); err != nil {
			for i := from; i < len(texts); i++ {
				res[i] = "unknown:" + err.Error()
			}
			return res
		}
		cmd := exec.Command(os.Args[0], "-test.run=^TestVerifC35ClassifyChild$", "-test.timeout=10m")
		cmd.Env = append(os.Environ(), "VERIF_C35S_CLASSIFY="+in)
		outb, runErr := cmd.CombinedOutput()
		started, finished := -1, -1
		lines, _ := os.ReadFile(in + ".out")
		for _, l := range strings.Split(string(lines), "\n") {
			f := strings.SplitN(l, " ", 3)
			if len(f) < 2 {
				continue
			}
			k, _ := strconv.Atoi(f[1])
			switch f[0] {
			case "start":
				started = k
			case "done":
				finished = k
				if len(f) == 3 {
					if msg, err := strconv.Unquote(f[2]); err == nil && msg != "" {
						res[from+k] = "panic:" + msg
					}
				}
			}
		}
		if runErr == nil && finished == len(texts)-from-1 {
			return res
		}
		if started <= finished {
			for i := from + finished + 1; i < len(texts); i++ {
				res[i] = "unknown:classification child failed outside a text: " + fmt.Sprint(runErr)
			}
			return res
		}
		all := string(outb)
		kind := "exit"
		switch {
		case strings.Contains(all, "stack overflow") || strings.Contains(all, "goroutine stack exceeds"):
			kind = "stack_overflow"
		case strings.Contains(all, "out of memory") || strings.Contains(all, "cannot allocate memory"):
			kind = "out_of_memory"
		case strings.Contains(all, "fatal error:"):
			kind = "fatal_error"
		}
		res[from+started] = "death:" + kind
		from += started + 1
	}
	return res
}

// c35DownClass classifies a server death by what the same text does to Parse in a process of its own.
func c35DownClass(dir, q string) (string, string) {
	text := q
	if i := strings.IndexByte(text, 0); i >= 0 {
		text = text[:i] // the wire format ends the query at the first NUL
	}
	// the text as sent first: if the process does not survive it, nothing else needs to be asked
	o := c35ParseOutcomes(dir, []string{text})
	if strings.HasPrefix(o[0], "death:") {
		return "server_down_parse_process_death_" + strings.TrimPrefix(o[0], "death:"), o[0]
	}
	st := c35Stable(text)
	o = append(o, c35ParseOutcomes(dir, []string{strings.TrimSpace(text), st})...)
	alone := o[0]
	if alone == "" {
		alone = o[1]
	}
	if strings.HasPrefix(o[1], "death:") {
		return "server_down_parse_process_death_" + strings.TrimPrefix(o[1], "death:"), o[1]
	}
	for _, x := range o {
		if strings.HasPrefix(x, "unknown:") {
			return "server_down_unclassified", x
		}
	}
	if o[0] == "" && o[1] == "" {
		return "server_down_not_a_parser_panic", alone
	}
	if st != text && o[2] == "" {
		return "server_down_parse_panic_lowercase_length_shift", alone
	}
	return "server_down_parse_panic_other", alone
}

func TestVerifC35Server(t *testing.T) {
	r := verifkit.Start(t, "C35", "server")
	defer r.Finish("the real SQL server runs in a child process (New + handleConnection per accepted loopback connection, storage faked empty); per case a bystander client completes a round trip, an attacker connection sends one generated text (valid / with length-changing runes / noise / as many statements, every statement kind in turn, whose white space is rewritten with runes of unicode.IsSpace outside the ASCII blanks and, every third, near-space runes such as zero-width space, BOM, soft hyphen) as a simple Query or as Parse-Describe-Bind-Execute-Sync, then the bystander's next round trip on its old connection and a fresh connection's handshake must still succeed. Violation = the server process is gone (its exit is awaited, its stderr kept). non-trivial = a hostile or noise text was delivered and the bystander was re-checked",
		"the accept loop of (*Server).Run is reproduced in the child (listener on port 0) because Run does not expose its port; handleConnection is the code under test",
		"socket deadlines and the wait for the child's exit are watchdogs: their expiry yields inconclusive, never a violation",
		"the server child runs with a 16 MiB goroutine stack limit and ends itself above 3 GiB of live heap (statements are a few KiB): runaway recursion or allocation then ends the process in seconds, as it would at the default limits after minutes; a death is classified by parsing the same text in a further process (never in the supervising one)")
	rs := gen.LengthChangingRunes()
	scratch := os.Getenv("VERIF_SCRATCH")
	if scratch == "" {
		scratch = t.TempDir()
	}
	dir, err := os.MkdirTemp(scratch, "c35s-")
	if err != nil {
		t.Fatal(err)
	}
	defer os.RemoveAll(dir)
	var child *c35Child
	var mu sync.Mutex
	defer func() {
		mu.Lock()
		if child != nil {
			child.stop()
		}
		mu.Unlock()
	}()
	starts := 0
	n := r.N(40, 400)
	var replayText, replayTransport string
	if rp := verifkit.Replay(); rp != nil && rp["leg"] == "server" {
		// bin/check --replay <witness>: only the witness is sent (the floor does not apply)
		if w, ok := rp["replay"].(map[string]any); ok {
			if h, ok := w["query_hex"].(string); ok {
				if b, err := hex.DecodeString(h); err == nil {
					replayText, replayTransport, n = string(b), fmt.Sprint(w["transport"]), 2
				}
			}
		}
	}
	ss := gen.Spaces()
	total := n
	if replayTransport == "" {
		total = 2 * n // as many white-space statements: PRNG indices above those of the older cases
	}
	for ci := 0; ci < total; ci++ {
		rng := r.Rand(ci)
		var text, kind string
		switch {
		case ci >= n:
			// every statement kind in turn, separators from the exotic part of unicode.IsSpace (every third: and near-space runes)
			k := ci - n
			st := gen.StatementKinds[k%len(gen.StatementKinds)]
			sp := gen.GenKind(rng, st).WithSpaces(rng, ss, k%3 == 2)
			text, kind = sp.Text, "uspace"
			r.Seen("uspace_statement_kinds", st)
			r.Seen("uspace_modes", sp.Mode)
			for _, kw := range sp.AfterKw {
				r.Seen("uspace_after_keyword", kw)
			}
		case ci%8 == 7:
			text, kind = gen.Gen(rng).String(), "valid"
		case ci%8 == 6:
			text, kind = gen.Noise(rng, rs, false)
			kind = "noise_" + kind
		case ci == 0:
			text, kind = "select ȺȺȺȺȺȺȺȺȺȺ from t", "hostile"
		default:
			text, kind = gen.Gen(rng).WithRunes(rng, rs).Text, "hostile"
		}
		transport := []string{"simple", "extended"}[ci%2]
		if replayTransport != "" {
			text, kind, transport = replayText, "hostile", replayTransport
			if ci == 1 { // second case: the same text over the other transport
				transport = map[string]string{"simple": "extended", "extended": "simple"}[replayTransport]
			}
		}
		if child == nil {
			c, err := c35StartChild(dir, starts)
			starts++
			if err != nil {
				r.Inconclusive("cannot start server child: " + err.Error())
				return
			}
			mu.Lock()
			child = c
			mu.Unlock()
		}
		by, err := c35Dial(child.addr)
		if err == nil {
			err = by.alive()
		}
		if err != nil {
			if child.dead(60 * time.Second) {
				if child.lostText != "" {
					// the process was already going down when the previous case looked at it
					cls, alone := c35DownClass(dir, child.lostText)
					r.Violation(cls, fmt.Sprintf("the SQL server process died after one client sent %q (%s); the next client found it gone: %v", c35sClip(child.lostText), child.lostTransport, err),
						map[string]any{"query": child.lostText, "query_hex": fmt.Sprintf("%x", child.lostText), "transport": child.lostTransport, "server_stderr": c35sTail(child.out.String()), "parse_alone_in_fresh_process": alone})
				} else {
					// the bystander's own SET round trip is a client query as well
					cls, _ := c35DownClass(dir, "SET verif = 1")
					r.Violation(cls, fmt.Sprintf("the SQL server process died on a client's first round trip (SET verif = 1): %v", err),
						map[string]any{"query": "SET verif = 1", "transport": "simple", "server_stderr": c35sTail(child.out.String())})
				}
				r.Count("server_process_deaths", 1)
			} else {
				r.Inconclusive(fmt.Sprintf("case %d: bystander could not talk to a fresh server: %v", ci, err))
				child.stop()
			}
			child = nil
			r.Case(verifkit.Hash("bystander", ci), false)
			continue
		}
		at, err := c35Dial(child.addr)
		if err != nil {
			r.Inconclusive(fmt.Sprintf("case %d: attacker could not connect: %v", ci, err))
			by.conn.Close()
			continue
		}
		var answer []string
		var sendErr error
		if transport == "simple" {
			answer, sendErr = at.simple(text)
		} else {
			answer, sendErr = at.extended(text)
		}
		at.conn.Close()
		var ne net.Error
		if sendErr != nil && errors.As(sendErr, &ne) && ne.Timeout() {
			// no answer within the socket watchdog: the handler is still busy with the text. If it is on its way to a fatal
			// error the process ends soon; give it time (watchdog only) so that the death is attributed to this text
			r.Count("attacker_timeouts", 1)
			child.dead(120 * time.Second)
		}
		if sendErr != nil && child.dying(1500*time.Millisecond) {
			// the attacker lost its connection and the process shows signs of going down: let it finish
			// (watchdog only; the verdict below is taken from what the bystander then observes)
			child.dead(60 * time.Second)
		}
		// the property: the other client is still served, and new clients are accepted
		errOld := by.alive()
		var errNew error
		if fresh, e := c35Dial(child.addr); e != nil {
			errNew = e
		} else {
			fresh.conn.Close()
		}
		by.conn.Close()
		r.Count("queries_"+kind, 1)
		r.Count("transport_"+transport, 1)
		if sendErr != nil {
			r.Count("attacker_connection_lost", 1)
		} else {
			r.Count("attacker_answered", 1)
		}
		hostile := kind != "valid"
		if errOld == nil && errNew == nil && sendErr != nil {
			child.lostText, child.lostTransport = text, transport
		}
		if errOld != nil || errNew != nil {
			if child.dead(60 * time.Second) {
				out := child.out.String()
				cls, alone := c35DownClass(dir, text)
				r.Violation(cls, fmt.Sprintf("the SQL server process died after one client sent %q (%s); bystander: %v / new connection: %v", c35sClip(text), transport, errOld, errNew),
					map[string]any{"query": text, "query_hex": fmt.Sprintf("%x", text), "transport": transport, "server_stderr": c35sTail(out), "parse_alone_in_fresh_process": alone})
				r.Count("server_process_deaths", 1)
				child = nil
			} else {
				r.Inconclusive(fmt.Sprintf("case %d: bystander failed (%v / %v) but the server process is still running", ci, errOld, errNew))
				child.stop()
				child = nil
			}
		} else {
			r.Count("bystander_served_after_query", 1)
		}
		r.Case(verifkit.Hash(kind, transport, fmt.Sprintf("%x", text)), hostile)
		if ci < 3 {
			r.Sample(map[string]any{"kind": kind, "transport": transport, "query": c35sClip(text), "attacker_answer": answer, "attacker_error": fmt.Sprint(sendErr), "bystander_after": fmt.Sprint(errOld), "new_connection_after": fmt.Sprint(errNew)})
		}
	}
	r.Count("server_children_started", int64(starts))
	if replayTransport == "" {
		r.Floor("queries_hostile", int64(n/2))
		r.Floor("queries_uspace", int64(n))
		r.Floor("uspace_statement_kinds", int64(len(gen.StatementKinds)))
	}
}

func c35sClip(s string) string {
	if len(s) > 160 {
		return s[:160] + fmt.Sprintf("…(%d bytes)", len(s))
	}
	return s
}

func c35sTail(s string) string {
	lines := strings.Split(s, "\n")
	if len(lines) > 45 {
		lines = append(lines[:30], lines[len(lines)-15:]...)
	}
	return strings.Join(lines, "\n")
}
