//go:build verif

// Package verifc35gen is the workload generator of check C35 (overlaid into the
// sql-processor module at internal/verifc35gen; never written to /repo).
//
// It produces KafSQL query texts as token lists, so that (a) the letter case of
// exactly the keyword tokens can be varied and (b) hostile runes can be placed
// before / inside / after every clause keyword, identifier and literal.
package verifc35gen

import (
	"math/rand"
	"sort"
	"strings"
	"unicode"
	"unicode/utf8"
)

// Token kinds.
const (
	KW    = iota // SQL keyword or SQL function name (ASCII letters and '_' only)
	ID           // identifier: topic, alias, column
	STR          // quoted string literal, quotes included
	NUM          // number or duration
	PUNCT        // , ( ) = >= <= . * ;
)

type Tok struct {
	Pre string // whitespace in front of the token
	T   string
	K   int
}

// Q is one generated statement.
type Q struct {
	Toks  []Tok
	Kind  string   // show_topics, show_partitions, describe, explain, select
	Feats []string // clauses used, sorted
	Punct bool     // GenEmbed: some name contains a keyword as a whole word set off by '.' or '-' (form punct)
	EndKw string   // GenEmbed: the keyword spelled by the suffix of the statement's last identifier ("" = none)
}

func (q Q) String() string {
	var b strings.Builder
	for _, t := range q.Toks {
		b.WriteString(t.Pre)
		b.WriteString(t.T)
	}
	return b.String()
}

func (q Q) Sig() string { return q.Kind + ":" + strings.Join(q.Feats, ",") }

type builder struct {
	rng   *rand.Rand
	toks  []Tok
	feats map[string]bool
	tight bool // next token is glued to the previous one
	embed bool // GenEmbed: identifiers are (often) replaced by identifiers that contain a keyword
	punct bool // an identifier of form punct was written
}

func (b *builder) ws() string {
	switch b.rng.Intn(12) {
	case 0:
		return "  "
	case 1:
		return "\t"
	case 2:
		return "\n"
	case 3:
		return " \n  "
	default:
		return " "
	}
}

func (b *builder) add(k int, s string) {
	pre := ""
	if len(b.toks) > 0 && !b.tight {
		pre = b.ws()
	}
	b.tight = false
	b.toks = append(b.toks, Tok{Pre: pre, T: s, K: k})
}

// glue adds a token that may or may not be separated from its neighbour.
func (b *builder) glue(k int, s string) {
	if b.rng.Intn(4) != 0 {
		b.tight = true
	}
	b.add(k, s)
}

func (b *builder) glueNext() {
	if b.rng.Intn(4) != 0 {
		b.tight = true
	}
}

func (b *builder) feat(s string) { b.feats[s] = true }

var (
	Topics    = []string{"orders", "payments", "t", "a.b", "my-topic", "topic_1", "x9", "Orders", "EVENTS", "u"}
	aliases   = []string{"o", "p", "l", "r", "ord", "pay", "x", "T1"}
	columns   = []string{"_key", "_value", "_ts", "_partition", "_offset", "_topic", "_headers", "_segment", "status", "amount", "Amount"}
	paths     = []string{"'$.status'", "'$.a.b'", "'$.items[0]'", "'$.id'", "'$.Meta.Name'", "'$.x y'"}
	durations = []string{"10m", "1h", "7d", "30s", "90m"}
	tsLits    = []string{"'2024-01-02 03:04:05'", "'2024-01-02 03:04:05.123'", "'2024-01-02T03:04:05Z'", "1700000000000", "'1700000000000'"}
	aggs      = []string{"count", "min", "max", "sum", "avg"}
	jsonFns   = []string{"json_value", "json_query", "json_exists"}
)

func pick(rng *rand.Rand, l []string) string { return l[rng.Intn(len(l))] }

// id chooses an identifier for an identifier site. Outside embed mode it is
// exactly pick (same PRNG consumption, so Gen's statements are unchanged); in
// embed mode every second identifier contains a keyword as prefix, suffix or infix.
func (b *builder) id(l []string) string {
	s := pick(b.rng, l)
	if b.embed && b.rng.Intn(2) == 0 {
		e, form := EmbedIdent(b.rng, "")
		b.feat("kwid_" + form)
		b.punct = b.punct || form == "punct"
		return e
	}
	return s
}

// fixedID is id for a site where Gen always writes the same identifier.
func (b *builder) fixedID(s string) string {
	if b.embed && b.rng.Intn(2) == 0 {
		e, form := EmbedIdent(b.rng, "")
		b.feat("kwid_" + form)
		b.punct = b.punct || form == "punct"
		return e
	}
	return s
}

func (b *builder) colRef(withSource string) {
	c := b.id(columns)
	if withSource != "" && b.rng.Intn(2) == 0 {
		b.add(ID, withSource)
		b.tight = true
		b.add(PUNCT, ".")
		b.tight = true
		b.add(ID, c)
		return
	}
	b.add(ID, c)
}

func (b *builder) jsonCall(fn string, src string) {
	b.add(KW, fn)
	b.glue(PUNCT, "(")
	b.glueNext()
	if src != "" && b.rng.Intn(2) == 0 {
		b.add(ID, src)
		b.tight = true
		b.add(PUNCT, ".")
		b.tight = true
	}
	b.add(ID, "_value")
	b.glue(PUNCT, ",")
	b.glueNext()
	if b.embed && b.rng.Intn(3) == 0 {
		e, form := EmbedIdent(b.rng, "")
		b.punct = b.punct || form == "punct"
		b.add(STR, "'$."+e+"'")
	} else {
		b.add(STR, pick(b.rng, paths))
	}
	b.glue(PUNCT, ")")
}

func (b *builder) selectCol(src string, allowAgg bool) {
	switch n := b.rng.Intn(10); {
	case n < 3:
		b.colRef(src)
		b.feat("col")
	case n < 5 && allowAgg:
		b.add(KW, pick(b.rng, aggs))
		b.glue(PUNCT, "(")
		b.glueNext()
		switch b.rng.Intn(3) {
		case 0:
			b.add(PUNCT, "*")
		case 1:
			b.colRef(src)
		default:
			b.jsonCall("json_value", src)
			b.feat("agg_json")
		}
		b.glue(PUNCT, ")")
		b.feat("agg")
	case n < 8:
		b.jsonCall(pick(b.rng, jsonFns), src)
		b.feat("json")
	default:
		b.colRef(src)
		b.feat("col")
	}
	switch b.rng.Intn(4) {
	case 0:
		b.add(KW, "as")
		b.add(ID, b.id([]string{"c1", "Total", "status_x", "v"}))
		b.feat("as")
	case 1:
		if b.toks[len(b.toks)-1].T == ")" {
			b.add(ID, b.id([]string{"c2", "Cnt"}))
			b.feat("bare_alias")
		}
	}
}

func (b *builder) selectStmt() {
	b.add(KW, "select")
	join := b.rng.Intn(3) == 0
	var la, ra string
	if join || b.rng.Intn(4) == 0 {
		la = b.id(aliases[:4])
	}
	if join && b.rng.Intn(4) != 0 {
		ra = b.id(aliases[4:])
	}
	if b.rng.Intn(3) == 0 {
		b.add(PUNCT, "*")
		b.feat("star")
	} else {
		n := 1 + b.rng.Intn(3)
		for i := 0; i < n; i++ {
			if i > 0 {
				b.glue(PUNCT, ",")
				b.glueNext()
			}
			src := la
			if ra != "" && b.rng.Intn(2) == 0 {
				src = ra
			}
			b.selectCol(src, !join)
		}
	}
	b.add(KW, "from")
	lt := b.id(Topics)
	b.add(ID, lt)
	if la != "" {
		b.add(ID, la)
		b.feat("alias")
	}
	if join {
		if b.rng.Intn(2) == 0 {
			b.add(KW, "left")
			b.feat("left")
		}
		b.add(KW, "join")
		b.feat("join")
		b.add(ID, b.id(Topics))
		if ra != "" {
			b.add(ID, ra)
		}
		if b.rng.Intn(5) != 0 {
			b.add(KW, "on")
			b.feat("on")
			side := func(a string) {
				if b.rng.Intn(3) == 0 {
					b.jsonCall("json_value", a)
					b.feat("on_json")
					return
				}
				if a != "" {
					b.add(ID, a)
					b.tight = true
					b.add(PUNCT, ".")
					b.tight = true
				}
				b.add(ID, "_key")
			}
			side(la)
			b.glue(PUNCT, "=")
			b.glueNext()
			side(ra)
		}
		b.add(KW, "within")
		b.add(NUM, pick(b.rng, durations))
		b.feat("within")
	}
	if !join && b.rng.Intn(3) == 0 {
		b.add(KW, "where")
		b.feat("where")
		n := 1 + b.rng.Intn(3)
		for i := 0; i < n; i++ {
			if i > 0 {
				b.add(KW, "and")
			}
			switch b.rng.Intn(5) {
			case 0, 1:
				b.add(ID, "_partition")
				b.add(PUNCT, "=")
				b.add(NUM, pick(b.rng, []string{"0", "2", "17"}))
			case 2:
				b.add(ID, "_offset")
				b.add(PUNCT, ">=")
				b.add(NUM, pick(b.rng, []string{"0", "10", "123456789012"}))
			case 3:
				b.add(ID, "_offset")
				b.add(PUNCT, "<=")
				b.add(NUM, pick(b.rng, []string{"5", "99"}))
			default:
				// the parser rejects _ts inside WHERE; kept because clients write it
				b.tsFilter()
			}
		}
	}
	if !join && b.rng.Intn(4) == 0 {
		if b.rng.Intn(5) != 0 {
			b.add(KW, "group by")
		} else {
			b.add(KW, "group")
			b.add(KW, "by")
		}
		b.feat("group")
		n := 1 + b.rng.Intn(2)
		for i := 0; i < n; i++ {
			if i > 0 {
				b.glue(PUNCT, ",")
				b.glueNext()
			}
			b.add(ID, b.id(columns))
		}
	}
	if b.rng.Intn(4) == 0 {
		if b.rng.Intn(5) != 0 {
			b.add(KW, "order by")
		} else {
			b.add(KW, "order")
			b.add(KW, "by")
		}
		b.add(ID, b.fixedID("_ts"))
		b.feat("order")
		switch b.rng.Intn(3) {
		case 0:
			b.add(KW, "desc")
			b.feat("desc")
		case 1:
			b.add(KW, "asc")
		}
	}
	if b.rng.Intn(3) == 0 {
		b.add(KW, "limit")
		b.add(NUM, pick(b.rng, []string{"1", "10", "500"}))
		b.feat("limit")
	}
	if join || b.rng.Intn(3) == 0 {
		b.add(KW, "last")
		b.add(NUM, pick(b.rng, durations))
		b.feat("last")
	} else if b.rng.Intn(4) == 0 {
		b.add(KW, "tail")
		b.add(NUM, pick(b.rng, []string{"5", "100"}))
		b.feat("tail")
	} else if b.rng.Intn(4) == 0 {
		b.add(KW, "scan")
		b.add(KW, "full")
		b.feat("scan_full")
	}
	if !b.feats["where"] && b.rng.Intn(6) == 0 {
		// a _ts predicate outside WHERE is the only place where the parser's
		// timestamp code is reached
		b.tsFilter()
	}
}

func (b *builder) tsFilter() {
	b.feat("ts")
	b.add(ID, "_ts")
	switch b.rng.Intn(3) {
	case 0:
		b.add(KW, "between")
		b.add(STR, pick(b.rng, tsLits[:3]))
		b.add(KW, "and")
		b.add(STR, pick(b.rng, tsLits[:3]))
	case 1:
		b.add(PUNCT, ">=")
		b.add(STR, pick(b.rng, tsLits))
	default:
		b.add(PUNCT, "<=")
		b.add(STR, pick(b.rng, tsLits))
	}
}

// Gen returns one statement of the KafSQL dialect (every statement kind and
// clause the parser knows).
func Gen(rng *rand.Rand) Q {
	return genWith(&builder{rng: rng, feats: map[string]bool{}})
}

func genWith(b *builder) Q {
	rng := b.rng
	kind := ""
	switch n := rng.Intn(20); {
	case n == 0:
		kind = "show_topics"
		b.add(KW, "show")
		b.add(KW, "topics")
	case n == 1:
		kind = "show_partitions"
		b.add(KW, "show")
		b.add(KW, "partitions")
		b.add(KW, "from")
		b.add(ID, b.id(Topics))
	case n == 2:
		kind = "describe"
		b.add(KW, "describe")
		b.add(ID, b.id(Topics))
	case n < 6:
		kind = "explain"
		b.add(KW, "explain")
		b.selectStmt()
	default:
		kind = "select"
		b.selectStmt()
	}
	if rng.Intn(3) == 0 {
		b.glue(PUNCT, ";")
		b.feat("semi")
	}
	q := Q{Toks: b.toks, Kind: kind, Punct: b.punct}
	for f := range b.feats {
		q.Feats = append(q.Feats, f)
	}
	sort.Strings(q.Feats)
	if rng.Intn(8) == 0 {
		q.Toks[0].Pre = b.ws()
	}
	return q
}

func flipWord(rng *rand.Rand, s string, mode int) string {
	switch mode {
	case 0:
		return strings.ToUpper(s)
	case 1:
		return strings.ToLower(s)
	case 2:
		if s == "" {
			return s
		}
		return strings.ToUpper(s[:1]) + s[1:]
	default:
		bs := []byte(s)
		for i, c := range bs {
			if rng.Intn(2) == 0 {
				if 'a' <= c && c <= 'z' {
					bs[i] = c - 32
				} else if 'A' <= c && c <= 'Z' {
					bs[i] = c + 32
				}
			}
		}
		return string(bs)
	}
}

// FlipCase returns the same statement with the letter case of keyword tokens
// (and only of those) changed at random. Keyword tokens are pure ASCII.
func (q Q) FlipCase(rng *rand.Rand) Q {
	out := Q{Kind: q.Kind, Feats: q.Feats, Toks: append([]Tok(nil), q.Toks...)}
	global := rng.Intn(4) // 0 all upper, 1 all lower, 2 capitalised, 3 per keyword
	for i, t := range out.Toks {
		if t.K != KW {
			continue
		}
		mode := global
		if global == 3 {
			mode = rng.Intn(4)
		}
		out.Toks[i].T = flipWord(rng, t.T, mode)
	}
	return out
}

// RuneSet holds every rune whose lower-case form has a different UTF-8 length.
type RuneSet struct {
	Longer  []rune // lower-case form is longer (Ⱥ -> ⱥ)
	Shorter []rune // lower-case form is shorter (İ -> i, K -> k)
}

// LengthChangingRunes scans the unicode tables.
func LengthChangingRunes() RuneSet {
	var rs RuneSet
	for r := rune(0x80); r <= unicode.MaxRune; r++ {
		if r >= 0xD800 && r <= 0xDFFF {
			continue
		}
		l := unicode.ToLower(r)
		if l == r {
			continue
		}
		a, b := utf8.RuneLen(r), utf8.RuneLen(l)
		if b > a {
			rs.Longer = append(rs.Longer, r)
		} else if b < a {
			rs.Shorter = append(rs.Shorter, r)
		}
	}
	return rs
}

var counts = []int{1, 1, 2, 3, 5, 10, 10, 30, 100, 300}

// Hostile describes where runes were put.
type Hostile struct {
	Q     Q
	Text  string
	Sites []string
	// Longer/Shorter: number of inserted runes per direction.
	Longer, Shorter int
}

// WithRunes places length-changing runes before / inside / after / instead of
// 1..3 tokens, or as a word of their own.
func (q Q) WithRunes(rng *rand.Rand, rs RuneSet) Hostile {
	return q.WithRunesIn(rng, rs, nil)
}

// WithRunesIn is WithRunes restricted to tokens of the given kinds (nil = any).
func (q Q) WithRunesIn(rng *rand.Rand, rs RuneSet, kinds map[int]bool) Hostile {
	toks := append([]Tok(nil), q.Toks...)
	h := Hostile{}
	var cand []int
	for i, t := range toks {
		if kinds == nil || kinds[t.K] {
			cand = append(cand, i)
		}
	}
	if len(cand) == 0 {
		h.Text = q.String()
		h.Q = q
		return h
	}
	nsites := 1 + rng.Intn(3)
	for s := 0; s < nsites; s++ {
		i := cand[rng.Intn(len(cand))]
		n := counts[rng.Intn(len(counts))]
		var sb strings.Builder
		mix := rng.Intn(4) == 0
		pickRune := func() rune {
			if rng.Intn(10) < 7 || len(rs.Shorter) == 0 {
				return rs.Longer[rng.Intn(len(rs.Longer))]
			}
			return rs.Shorter[rng.Intn(len(rs.Shorter))]
		}
		r := pickRune()
		for k := 0; k < n; k++ {
			if mix && k > 0 {
				r = pickRune()
			}
			sb.WriteRune(r)
			if utf8.RuneLen(unicode.ToLower(r)) > utf8.RuneLen(r) {
				h.Longer++
			} else {
				h.Shorter++
			}
		}
		ins := sb.String()
		t := toks[i]
		kindName := []string{"kw", "id", "str", "num", "punct"}[t.K]
		switch rng.Intn(5) {
		case 0:
			toks[i].T = ins + t.T
			h.Sites = append(h.Sites, "before:"+kindName)
		case 1:
			toks[i].T = t.T + ins
			h.Sites = append(h.Sites, "after:"+kindName)
		case 2:
			cut := 0
			if len(t.T) > 1 {
				cut = 1 + rng.Intn(len(t.T)-1)
				for cut < len(t.T) && !utf8.RuneStart(t.T[cut]) {
					cut++
				}
			}
			toks[i].T = t.T[:cut] + ins + t.T[cut:]
			h.Sites = append(h.Sites, "inside:"+kindName)
		case 3:
			toks[i].Pre = t.Pre + ins + " "
			h.Sites = append(h.Sites, "word_before:"+kindName)
		default:
			if t.K == STR {
				toks[i].T = "'" + ins + "'"
			} else if t.K == KW {
				toks[i].T = t.T + " " + ins
			} else {
				toks[i].T = ins
			}
			h.Sites = append(h.Sites, "replace:"+kindName)
		}
	}
	h.Q = Q{Toks: toks, Kind: q.Kind, Feats: q.Feats}
	h.Text = h.Q.String()
	sort.Strings(h.Sites)
	return h
}

var soupWords = []string{"select", "from", "where", "join", "left", "on", "group by", "order by", "group", "order", "by", "limit", "last", "tail",
	"within", "scan", "full", "as", "and", "between", "desc", "explain", "show", "topics", "partitions", "describe", "count", "json_value",
	"_ts", "_key", "_value", "_partition", "_offset", "=", ">=", "<=", ",", "(", ")", "'", "''", ";", "*", ".", "t", "1", "$1", "'$.a'", "--", "/*", "*/", "\x00", "\"",
	"information_schema.tables", "pg_catalog.pg_class", "set", "reset"}

// Noise returns unstructured or half-structured input; the result need not be
// valid UTF-8. big selects long inputs (thorough tier).
func Noise(rng *rand.Rand, rs RuneSet, big bool) (string, string) {
	maxRep := 200
	if big {
		maxRep = 6000
	}
	switch rng.Intn(9) {
	case 0:
		n := rng.Intn(200)
		b := make([]byte, n)
		rng.Read(b)
		return string(b), "bytes"
	case 1:
		n := rng.Intn(60)
		var sb strings.Builder
		for i := 0; i < n; i++ {
			switch rng.Intn(4) {
			case 0:
				sb.WriteRune(rune(rng.Intn(0x80)))
			case 1:
				sb.WriteRune(rs.Longer[rng.Intn(len(rs.Longer))])
			case 2:
				sb.WriteRune(rune(0x80 + rng.Intn(0x2ff80)))
			default:
				sb.WriteByte(' ')
			}
		}
		return sb.String(), "runes"
	case 2, 3:
		n := 1 + rng.Intn(25)
		var sb strings.Builder
		if rng.Intn(2) == 0 {
			sb.WriteString(pick(rng, []string{"select ", "SELECT * FROM t ", "explain select ", "show ", "describe "}))
		}
		for i := 0; i < n; i++ {
			w := soupWords[rng.Intn(len(soupWords))]
			switch rng.Intn(12) {
			case 0:
				w = strings.ToUpper(w)
			case 1:
				w = string(rs.Longer[rng.Intn(len(rs.Longer))]) + w
			case 2:
				w = w + strings.Repeat(string(rs.Longer[rng.Intn(len(rs.Longer))]), 1+rng.Intn(20))
			case 3:
				w = w + string(rs.Shorter[rng.Intn(len(rs.Shorter))])
			}
			sb.WriteString(w)
			if rng.Intn(6) != 0 {
				sb.WriteByte(' ')
			}
		}
		return sb.String(), "soup"
	case 4:
		s := Gen(rng).String()
		cut := rng.Intn(len(s) + 1)
		return s[:cut], "truncated"
	case 5:
		bs := []byte(Gen(rng).String())
		for k := 0; k < 1+rng.Intn(4); k++ {
			p := rng.Intn(len(bs) + 1)
			var ins []byte
			switch rng.Intn(6) {
			case 0:
				ins = []byte{0xff}
			case 1:
				ins = []byte{0xc3}
			case 2:
				ins = []byte{0xe2, 0xb1}
			case 3:
				ins = []byte{byte(rng.Intn(256))}
			case 4:
				ins = []byte(pick(rng, []string{"'", "(", ")", ",", "=", " on ", " from ", " select ", " group by ", " order by ", " join "}))
			default:
				ins = []byte(strings.Repeat("\xff", 1+rng.Intn(40)))
			}
			bs = append(bs[:p], append(ins, bs[p:]...)...)
		}
		return string(bs), "mutated"
	case 6:
		w := pick(rng, []string{"explain ", "join ", "(", ")", ",", "select ", "from ", "group by ", "order by ", "on ", "'", "as ", " ", ";", "left join ", "ȺȺ "})
		pre := pick(rng, []string{"", "select ", "select * from t ", "explain select * from t ", "select count("})
		post := pick(rng, []string{"", " from t", "select * from t last 1h", ")"})
		return pre + strings.Repeat(w, 1+rng.Intn(maxRep)) + post, "repeat"
	case 7:
		// statement whose tail is only a clause keyword
		q := Gen(rng).String()
		return q + pick(rng, []string{" group by", " order by", " join", " left join", " on", " where", " limit", " group by ", " order by Ⱥ", " join Ⱥ on", " on Ⱥ=Ⱥ", " as"}), "dangling"
	default:
		return pick(rng, []string{"", " ", ";", " ; ", "\n", ";;", "select", "select from", "select from t", "select * from", "select , from t", "select ,, from t",
			"from t select *", "explain", "explain ;", "explain explain select * from t", "show", "show partitions from", "describe", "select * from t join", "select * from t left join",
			"select * from t join u on", "select * from t join u on =", "select * from t join u on a=b=c", "select count( from t", "select count(*)) from t", "select * from t order by",
			"select * from t group by", "select * from t limit", "select * from t where", "select * from t where _partition", "select * from t where _partition =", "select * from t where _offset >=",
			"select * from t where _partition = 99999999999", "select * from t _ts between '' and ''", "select * from t _ts >= ''", "select * from t _ts >= '", "select as from t", "select a as from t",
			"select json_value(_value, '') from t", "select json_value(_value '$.a') from t", "SELECT\x00* FROM t"}), "fixed"
	}
}

// ---- identifiers that contain keywords ----

// Keywords lists every word the builder writes as a KW token (the two-word
// clause keywords also as a whole). CheckKeywords verifies the list against the
// statements actually generated.
var Keywords = []string{"select", "from", "where", "join", "left", "on", "group", "by", "group by", "order", "order by", "limit", "last", "tail",
	"within", "scan", "full", "as", "and", "between", "desc", "asc", "explain", "show", "topics", "partitions", "describe",
	"count", "min", "max", "sum", "avg", "json_value", "json_query", "json_exists"}

// SingleKeywords are the keywords that fit into one identifier.
func SingleKeywords() []string {
	var out []string
	for _, k := range Keywords {
		if !strings.Contains(k, " ") {
			out = append(out, k)
		}
	}
	return out
}

// CheckKeywords returns the KW token texts of q that Keywords does not list.
func CheckKeywords(q Q) []string {
	known := map[string]bool{}
	for _, k := range Keywords {
		known[k] = true
	}
	var missing []string
	for _, t := range q.Toks {
		if t.K == KW && !known[strings.ToLower(t.T)] {
			missing = append(missing, t.T)
		}
	}
	return missing
}

var (
	// word characters only: the keyword is glued to them
	embedHeads = []string{"x", "re", "de", "b", "sta", "order_", "my_", "t9", "_", "X", "Re", "7", "ab_c"}
	embedTails = []string{"s", "age", "_id", "x", "9", "_", "ed", "S", "_2", "ing"}
)

// EmbedIdent returns an identifier that contains keyword kw ("" = a random
// single-word keyword) as a proper prefix, suffix or infix of a longer word
// (forms prefix/suffix/infix), or, rarely, as a whole word set off by '.' or '-'
// inside a dotted/dashed name (form punct). One in four gets random letter case.
func EmbedIdent(rng *rand.Rand, kw string) (string, string) {
	s, name, _ := embedIdentForm(rng, kw, -1)
	return s, name
}

func embedIdentForm(rng *rand.Rand, kw string, form int) (string, string, string) {
	if kw == "" {
		sk := SingleKeywords()
		kw = sk[rng.Intn(len(sk))]
	}
	if form < 0 {
		form = rng.Intn(13) / 4 // 0,1,2 four times each, 3 once
	}
	var s, name string
	switch form {
	case 0:
		s, name = kw+pick(rng, embedTails), "prefix"
	case 1:
		s, name = pick(rng, embedHeads)+kw, "suffix"
	case 2:
		s, name = pick(rng, embedHeads)+kw+pick(rng, embedTails), "infix"
	default:
		name = "punct"
		switch rng.Intn(4) {
		case 0:
			s = pick(rng, embedHeads) + "." + kw
		case 1:
			s = kw + "-" + pick(rng, embedTails)
		case 2:
			s = pick(rng, embedHeads) + "-" + kw
		default:
			s = pick(rng, embedHeads) + "." + kw + "." + pick(rng, embedTails)
		}
	}
	if rng.Intn(4) == 0 {
		s = flipWord(rng, s, rng.Intn(4))
	}
	return s, name, kw
}

// GenEmbed is Gen with identifiers (topics, aliases, columns, AS names, GROUP BY
// and ORDER BY columns, JSON path members) that contain keywords. Every second
// statement is also cut right after one of its identifiers that follow FROM, and
// that last identifier is (3 of 4 times) one whose suffix spells a keyword, so
// that statements and clauses END in such an identifier; a ';' may follow.
func GenEmbed(rng *rand.Rand) Q {
	b := &builder{rng: rng, feats: map[string]bool{}, embed: true}
	q := genWith(b)
	if rng.Intn(2) == 0 {
		return q
	}
	from := -1
	var cand []int
	for i, t := range q.Toks {
		if t.K == KW && strings.EqualFold(t.T, "from") && from < 0 {
			from = i
		}
		if t.K == ID && from >= 0 {
			cand = append(cand, i)
		}
	}
	if len(cand) == 0 {
		return q
	}
	cut := cand[rng.Intn(len(cand))]
	if rng.Intn(3) == 0 {
		cut = cand[len(cand)-1]
	}
	toks := append([]Tok(nil), q.Toks[:cut+1]...)
	where := "id"
	for i := cut - 1; i >= 0; i-- {
		if toks[i].K == KW {
			where = strings.ReplaceAll(strings.ToLower(toks[i].T), " ", "_")
			break
		}
	}
	feats := map[string]bool{"cut_after_" + where: true}
	endKw := ""
	if rng.Intn(4) != 0 {
		toks[cut].T, _, endKw = embedIdentForm(rng, "", 1)
		feats["end_kwid_suffix"] = true
	}
	if rng.Intn(3) == 0 {
		pre := ""
		if rng.Intn(3) == 0 {
			pre = b.ws()
		}
		toks = append(toks, Tok{Pre: pre, T: ";", K: PUNCT})
		feats["semi"] = true
	}
	// features of the part that was kept
	for _, f := range q.Feats {
		if strings.HasPrefix(f, "kwid_") || f == "semi" {
			continue
		}
		feats[f] = true
	}
	out := Q{Toks: toks, Kind: q.Kind, EndKw: endKw, Punct: q.Punct}
	for f := range feats {
		out.Feats = append(out.Feats, f)
	}
	sort.Strings(out.Feats)
	return out
}

// EmbedNoise returns texts in which a keyword occurs only glued into a longer
// word: a statement one of whose keyword tokens is replaced by an identifier
// that contains it (optionally cut right there), a statement followed by a
// dangling word that ends in / starts with a (one- or two-word) keyword, or a
// few words of that kind alone.
func EmbedNoise(rng *rand.Rand) (string, string) {
	glued := func(kw string) string {
		switch rng.Intn(3) {
		case 0:
			return pick(rng, embedHeads) + kw
		case 1:
			return kw + pick(rng, embedTails)
		default:
			return pick(rng, embedHeads) + kw + pick(rng, embedTails)
		}
	}
	switch rng.Intn(4) {
	case 0, 1:
		q := Gen(rng)
		var kws []int
		for i, t := range q.Toks {
			if t.K == KW {
				kws = append(kws, i)
			}
		}
		toks := append([]Tok(nil), q.Toks...)
		i := kws[rng.Intn(len(kws))]
		toks[i].T = glued(toks[i].T)
		toks[i].K = ID
		how := "kw_glued"
		if rng.Intn(2) == 0 {
			toks = toks[:i+1]
			how = "kw_glued_cut"
		}
		return Q{Toks: toks}.String(), how
	case 2:
		q := Gen(rng).String()
		kw := Keywords[rng.Intn(len(Keywords))]
		w := pick(rng, embedHeads) + kw
		if rng.Intn(4) == 0 {
			w = kw + pick(rng, embedTails)
		}
		if rng.Intn(4) == 0 {
			w = strings.ToUpper(w)
		}
		return strings.TrimRight(q, "; \t\n") + pick(rng, []string{" ", ", ", " group by ", " order by ", " join ", " on ", " as "}) + w + pick(rng, []string{"", "", "", ";", " ;"}), "dangling_glued"
	default:
		n := 1 + rng.Intn(4)
		var sb strings.Builder
		sb.WriteString(pick(rng, []string{"select ", "select * ", "explain select ", "select * from t ", "show partitions ", "describe ", ""}))
		for k := 0; k < n; k++ {
			if k > 0 {
				sb.WriteString(pick(rng, []string{" ", ",", ", "}))
			}
			sb.WriteString(glued(Keywords[rng.Intn(len(Keywords))]))
		}
		return sb.String(), "glued_words"
	}
}

// ---- white space outside the ASCII blanks ----

// SpaceSet is the alphabet of the white-space families.
type SpaceSet struct {
	// Plain: the ASCII blanks every tokeniser agrees on (also the regexp class \s).
	Plain []rune
	// Exotic: every other rune for which unicode.IsSpace holds (computed from the
	// unicode tables: \v, U+0085, U+00A0, U+1680, U+2000..U+200A, U+2028, U+2029,
	// U+202F, U+205F, U+3000). strings.Fields / strings.TrimSpace split on them.
	Exotic []rune
	// Near: blank or invisible runes that unicode.IsSpace does NOT accept but other
	// tokenisers, editors and humans take for a separator (zero-width space, BOM,
	// soft hyphen, word joiner, ASCII FS/GS/RS/US, fillers, ...). They glue tokens.
	Near []rune
}

// Spaces computes the alphabet.
func Spaces() SpaceSet {
	ss := SpaceSet{Plain: []rune("\t\n\f\r ")}
	plain := map[rune]bool{}
	for _, r := range ss.Plain {
		plain[r] = true
	}
	for r := rune(0); r <= unicode.MaxRune; r++ {
		if unicode.IsSpace(r) && !plain[r] {
			ss.Exotic = append(ss.Exotic, r)
		}
	}
	for _, r := range []rune{0x08, 0x1C, 0x1D, 0x1E, 0x1F, 0x7F, 0x00AD, 0x034F, 0x061C, 0x115F, 0x1160, 0x17B4, 0x17B5, 0x180E,
		0x200B, 0x200C, 0x200D, 0x200E, 0x200F, 0x2060, 0x2061, 0x2062, 0x2063, 0x2064, 0x2800, 0x3164, 0xFEFF, 0xFFA0} {
		if !unicode.IsSpace(r) {
			ss.Near = append(ss.Near, r)
		}
	}
	return ss
}

func (ss SpaceSet) isPlain(r rune) bool {
	for _, p := range ss.Plain {
		if p == r {
			return true
		}
	}
	return false
}

// Spaced is a statement whose separators were rewritten by WithSpaces.
type Spaced struct {
	Q    Q
	Text string
	Mode string // one | all | after_kw | mixed | any
	Near bool   // near-space runes were used as well (tokens are then glued for a unicode.IsSpace tokeniser)
	// AfterKw: lower-case keyword tokens whose directly following rune is a non-plain separator rune.
	AfterKw []string
	// Runes: the non-plain separator runes written.
	Runes []rune
	// Sites: number of separators rewritten (tight = separators put where the statement had none).
	Sites, Tight int
}

// sep builds one separator of 1..3 runes. pool chooses the non-plain rune.
func (ss SpaceSet) sep(rng *rand.Rand, pool func() rune, used *[]rune) string {
	var sb strings.Builder
	put := func() {
		r := pool()
		sb.WriteRune(r)
		if !ss.isPlain(r) {
			*used = append(*used, r)
		}
	}
	plain := func() { sb.WriteRune(ss.Plain[rng.Intn(len(ss.Plain))]) }
	switch rng.Intn(8) {
	case 0, 1, 2, 3:
		put()
	case 4:
		for k := 2 + rng.Intn(2); k > 0; k-- {
			put()
		}
	case 5:
		put()
		plain()
	case 6:
		plain()
		put()
	default:
		put()
		plain()
		put()
	}
	return sb.String()
}

// WithSpaces rewrites the white space between the tokens of q (every statement
// kind, after every keyword, identifier, literal and punctuation mark, in front
// of the statement and behind it). The separators come from the exotic part of
// unicode.IsSpace (near=false) or from exotic and near-space runes (near=true).
// Modes: one = a single separator, all = every separator, after_kw = exactly the
// separators that follow a keyword token (also where the statement had none, as
// in count<sep>( ), mixed = every separator with probability 1/2, any = every
// separator drawn from the whole of unicode.IsSpace (plain blanks included, so
// \f and \r occur too).
func (q Q) WithSpaces(rng *rand.Rand, ss SpaceSet, near bool) Spaced {
	toks := append([]Tok(nil), q.Toks...)
	// a trailing empty token carries the white space behind the statement
	toks = append(toks, Tok{T: "", K: PUNCT})
	sp := Spaced{Near: near}
	sp.Mode = []string{"one", "one", "one", "all", "all", "after_kw", "after_kw", "mixed", "mixed", "any"}[rng.Intn(10)]
	pool := func() rune {
		if sp.Mode == "any" && rng.Intn(3) == 0 {
			return ss.Plain[rng.Intn(len(ss.Plain))]
		}
		if near && rng.Intn(2) == 0 {
			return ss.Near[rng.Intn(len(ss.Near))]
		}
		return ss.Exotic[rng.Intn(len(ss.Exotic))]
	}
	rewrite := func(i int) {
		if toks[i].Pre == "" {
			sp.Tight++
		}
		toks[i].Pre = ss.sep(rng, pool, &sp.Runes)
		sp.Sites++
	}
	var seps []int // separators the statement has
	for i := 1; i < len(toks)-1; i++ {
		if toks[i].Pre != "" {
			seps = append(seps, i)
		}
	}
	switch sp.Mode {
	case "one":
		switch {
		case rng.Intn(12) == 0:
			rewrite(0)
		case rng.Intn(12) == 0 || len(seps) == 0:
			rewrite(len(toks) - 1)
		default:
			rewrite(seps[rng.Intn(len(seps))])
		}
	case "after_kw":
		for i := 1; i < len(toks); i++ {
			if toks[i-1].K == KW {
				rewrite(i)
			}
		}
	default: // all, mixed, any
		for i := 0; i < len(toks); i++ {
			existing := toks[i].Pre != ""
			switch {
			case sp.Mode == "mixed" && rng.Intn(2) == 0:
			case existing:
				rewrite(i)
			case i == 0 || i == len(toks)-1:
				if rng.Intn(3) == 0 {
					rewrite(i)
				}
			case rng.Intn(6) == 0:
				rewrite(i) // between glued tokens: count <sep> ( , o <sep> . _key
			}
		}
	}
	if sp.Sites == 0 {
		rewrite(len(toks) - 1)
	}
	seen := map[string]bool{}
	for i := 1; i < len(toks); i++ {
		if toks[i-1].K != KW || toks[i].Pre == "" {
			continue
		}
		first, _ := utf8.DecodeRuneInString(toks[i].Pre)
		kw := strings.ToLower(toks[i-1].T)
		if !ss.isPlain(first) && !seen[kw] {
			seen[kw] = true
			sp.AfterKw = append(sp.AfterKw, kw)
		}
	}
	sort.Strings(sp.AfterKw)
	sp.Q = Q{Toks: toks, Kind: q.Kind, Feats: q.Feats}
	sp.Text = sp.Q.String()
	return sp
}

// GenKind is Gen restricted to one statement kind (show_topics, show_partitions,
// describe, explain, select).
func GenKind(rng *rand.Rand, kind string) Q {
	for {
		if q := Gen(rng); q.Kind == kind {
			return q
		}
	}
}

// StatementKinds lists the kinds Gen produces.
var StatementKinds = []string{"show_topics", "show_partitions", "describe", "explain", "select"}

// SpaceNoise returns half-structured texts around exotic and near-space runes:
// token soup with such separators, a spaced statement cut at a random rune, a
// keyword followed by such a separator repeated many times (nested EXPLAIN with
// exotic blanks is one of them), texts made of blanks only, and statements with
// such a rune inside a token. big selects long repetitions (thorough tier).
func SpaceNoise(rng *rand.Rand, ss SpaceSet, big bool) (string, string) {
	var used []rune
	anyRune := func() rune {
		switch rng.Intn(5) {
		case 0:
			return ss.Plain[rng.Intn(len(ss.Plain))]
		case 1, 2:
			return ss.Near[rng.Intn(len(ss.Near))]
		default:
			return ss.Exotic[rng.Intn(len(ss.Exotic))]
		}
	}
	switch rng.Intn(6) {
	case 0:
		n := 1 + rng.Intn(25)
		var sb strings.Builder
		if rng.Intn(2) == 0 {
			sb.WriteString(pick(rng, []string{"select", "SELECT * FROM t", "explain", "explain select", "show", "describe"}))
			sb.WriteString(ss.sep(rng, anyRune, &used))
		}
		for i := 0; i < n; i++ {
			w := soupWords[rng.Intn(len(soupWords))]
			if rng.Intn(8) == 0 {
				w = strings.ToUpper(w)
			}
			sb.WriteString(w)
			if rng.Intn(6) != 0 {
				sb.WriteString(ss.sep(rng, anyRune, &used))
			}
		}
		return sb.String(), "space_soup"
	case 1:
		s := Gen(rng).WithSpaces(rng, ss, rng.Intn(2) == 0).Text
		cut := rng.Intn(len(s) + 1)
		for cut < len(s) && !utf8.RuneStart(s[cut]) {
			cut++
		}
		if rng.Intn(4) == 0 && cut < len(s) {
			cut++ // inside a rune: the text ends in a torn separator
		}
		return s[:cut], "space_truncated"
	case 2:
		maxRep := 200
		if big {
			maxRep = 4000
		}
		kw := Keywords[rng.Intn(len(Keywords))]
		if rng.Intn(3) == 0 {
			kw = "explain"
		}
		if rng.Intn(4) == 0 {
			kw = strings.ToUpper(kw)
		}
		unit := kw + ss.sep(rng, anyRune, &used)
		pre := pick(rng, []string{"", "", "select ", "select * from t ", "explain ", "explain\v", "select count("})
		post := pick(rng, []string{"", "", " from t", "select * from t last 1h", ")", "select * from\u3000t"})
		return pre + strings.Repeat(unit, 1+rng.Intn(maxRep)) + post, "space_repeat"
	case 3:
		n := rng.Intn(12)
		var sb strings.Builder
		for i := 0; i < n; i++ {
			sb.WriteRune(anyRune())
			if rng.Intn(8) == 0 {
				sb.WriteByte(';')
			}
		}
		return sb.String(), "space_only"
	case 4:
		// a separator rune inside a token: sel<sep>ect, or<sep>ders, '$.a<sep>b', 1<sep>0m
		q := Gen(rng)
		toks := append([]Tok(nil), q.Toks...)
		for k := 1 + rng.Intn(3); k > 0; k-- {
			i := rng.Intn(len(toks))
			t := toks[i].T
			cut := 0
			if len(t) > 1 {
				cut = 1 + rng.Intn(len(t)-1)
			}
			toks[i].T = t[:cut] + ss.sep(rng, anyRune, &used) + t[cut:]
		}
		return Q{Toks: toks}.String(), "space_inside_token"
	default:
		// a spaced statement followed by a dangling clause keyword and a separator
		s := Gen(rng).WithSpaces(rng, ss, rng.Intn(2) == 0).Text
		kw := pick(rng, []string{"group by", "order by", "join", "left join", "on", "where", "limit", "last", "as", "explain", "within", "and"})
		return s + ss.sep(rng, anyRune, &used) + kw + pick(rng, []string{"", ss.sep(rng, anyRune, &used), ss.sep(rng, anyRune, &used) + "x"}), "space_dangling"
	}
}
