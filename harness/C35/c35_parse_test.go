//go:build verif

package sql

import (
	"bufio"
	"bytes"
	"encoding/hex"
	"encoding/json"
	"fmt"
	"os"
	"os/exec"
	"path/filepath"
	"reflect"
	"regexp"
	"runtime"
	"runtime/debug"
	"strconv"
	"strings"
	"sync"
	"testing"
	"time"
	"unicode"
	"unicode/utf8"

	gen "github.com/kafscale/platform/addons/processors/sql-processor/internal/verifc35gen"
	"github.com/kafscale/platform/addons/processors/sql-processor/internal/verifkit"
)

// ---- job / result exchanged between the supervising parent and the child ----

type c35Job struct {
	Kind    string   `json:"kind"` // meta_ascii | meta_unicode | meta_embed | embed_punct | hostile | noise | embed_noise | uspace | nearspace | space_noise
	Sig     string   `json:"sig"`
	Texts   [][]byte `json:"texts"` // Texts[0] is the base; for meta_* the rest are keyword-case variants of it
	Sites   []string `json:"sites,omitempty"`
	Longer  int      `json:"longer,omitempty"`
	Shorter int      `json:"shorter,omitempty"`
	EndKw   string   `json:"end_kw,omitempty"` // meta_embed: keyword spelled by the suffix of the statement's last identifier
	Feats   []string `json:"feats,omitempty"`
	// uspace / nearspace: how the separators were rewritten
	Mode    string   `json:"mode,omitempty"`
	AfterKw []string `json:"after_kw,omitempty"` // keywords directly followed by a non-plain separator rune
	Runes   []string `json:"runes,omitempty"`    // U+XXXX of the non-plain separator runes
	StKind  string   `json:"st_kind,omitempty"`  // statement kind
}

type c35Finding struct {
	Class   string         `json:"class"`
	Summary string         `json:"summary"`
	Replay  map[string]any `json:"replay"`
}

type c35Result struct {
	Job      int          `json:"job"`
	Outcomes []string     `json:"outcomes"` // per text: ok:<type> | err:<message> | panic:<message>
	Findings []c35Finding `json:"findings,omitempty"`
	Alloc    uint64       `json:"alloc"`
	Done     bool         `json:"done,omitempty"` // end marker line
}

type c35Panic struct {
	Msg   string
	Frame string
}

// c35SafeParse is the observation point: the result of Parse or its panic.
func c35SafeParse(s string) (q Query, err error, pan *c35Panic) {
	defer func() {
		if p := recover(); p != nil {
			pan = &c35Panic{Msg: fmt.Sprint(p)}
			pcs := make([]uintptr, 64)
			n := runtime.Callers(2, pcs)
			frames := runtime.CallersFrames(pcs[:n])
			for {
				f, more := frames.Next()
				if strings.Contains(f.Function, "/internal/sql.") && !strings.Contains(f.Function, "c35") {
					pan.Frame = f.Function[strings.LastIndex(f.Function, ".")+1:]
					break
				}
				if !more {
					break
				}
			}
		}
	}()
	q, err = Parse(s)
	return
}

// c35Stabilize replaces, byte length preserved, every rune whose lower-case form
// has another UTF-8 length (and every invalid byte) by a rune of the same length
// that lower-cases to itself. It is used only to *classify* a witness: if the
// misbehaviour disappears on the stabilised text, the length change caused it.
func c35Stabilize(s string) string {
	var b strings.Builder
	for i := 0; i < len(s); {
		r, w := utf8.DecodeRuneInString(s[i:])
		switch {
		case r == utf8.RuneError && w == 1:
			b.WriteByte('?')
		case r >= 0x80 && utf8.RuneLen(unicode.ToLower(r)) != w:
			switch w {
			case 2:
				b.WriteString("é")
			case 3:
				b.WriteString("€")
			default:
				b.WriteString("😀")
			}
		default:
			b.WriteString(s[i : i+w])
		}
		i += w
	}
	return b.String()
}

var c35Digits = regexp.MustCompile(`\d+`)

func c35PanicClass(text string, p *c35Panic) string {
	if st := c35Stabilize(text); st != text {
		if _, _, p2 := c35SafeParse(st); p2 == nil {
			return "parse_panic_lowercase_length_shift"
		}
	}
	return "parse_panic:" + p.Frame + ":" + strings.ReplaceAll(c35Digits.ReplaceAllString(p.Msg, "N"), " ", "_")
}

func c35ASCIILower(s string) string {
	b := []byte(s)
	for i, c := range b {
		if 'A' <= c && c <= 'Z' {
			b[i] = c + 32
		}
	}
	return string(b)
}

// c35Norm removes the one difference the statement allows: SelectColumn.Raw is
// by definition the column's input text, whose keywords differ in ASCII case.
func c35Norm(q Query) Query {
	if q.Select != nil {
		cols := make([]SelectColumn, len(q.Select))
		copy(cols, q.Select)
		for i := range cols {
			cols[i].Raw = c35ASCIILower(cols[i].Raw)
		}
		q.Select = cols
	}
	if q.Explain != nil {
		e := c35Norm(*q.Explain)
		q.Explain = &e
	}
	return q
}

// c35Diff names the first field in which two parsed queries differ ("" = equal).
func c35Diff(a, b Query) string {
	a, b = c35Norm(a), c35Norm(b)
	if reflect.DeepEqual(a, b) {
		return ""
	}
	va, vb := reflect.ValueOf(a), reflect.ValueOf(b)
	for i := 0; i < va.NumField(); i++ {
		name := va.Type().Field(i).Name
		if name == "Explain" && a.Explain != nil && b.Explain != nil {
			if d := c35Diff(*a.Explain, *b.Explain); d != "" {
				return "Explain." + d
			}
			continue
		}
		if name == "Select" && len(a.Select) == len(b.Select) {
			for k := range a.Select {
				sa, sb := reflect.ValueOf(a.Select[k]), reflect.ValueOf(b.Select[k])
				for f := 0; f < sa.NumField(); f++ {
					if !reflect.DeepEqual(sa.Field(f).Interface(), sb.Field(f).Interface()) {
						return "Select." + sa.Type().Field(f).Name
					}
				}
			}
			continue
		}
		if !reflect.DeepEqual(va.Field(i).Interface(), vb.Field(i).Interface()) {
			return name
		}
	}
	return "?"
}

func c35JSON(q Query) string {
	b, _ := json.Marshal(q)
	return string(b)
}

// c35Compare: "" if two texts that differ only in ASCII keyword case parse alike.
func c35Compare(base, variant string) (field string, detail string) {
	qa, ea, pa := c35SafeParse(base)
	qb, eb, pb := c35SafeParse(variant)
	if pa != nil || pb != nil {
		return "", "" // reported as a panic
	}
	if (ea == nil) != (eb == nil) {
		return "error_status", fmt.Sprintf("%v vs %v", ea, eb)
	}
	if ea != nil {
		return "", ""
	}
	if d := c35Diff(qa, qb); d != "" {
		return d, c35JSON(qa) + " vs " + c35JSON(qb)
	}
	return "", ""
}

func c35Eval(idx int, job c35Job) c35Result {
	res := c35Result{Job: idx}
	var ms runtime.MemStats
	runtime.ReadMemStats(&ms)
	before := ms.TotalAlloc
	seenClass := map[string]bool{}
	for _, tb := range job.Texts {
		text := string(tb)
		q, err, pan := c35SafeParse(text)
		switch {
		case pan != nil:
			res.Outcomes = append(res.Outcomes, "panic:"+pan.Msg)
			cls := c35PanicClass(text, pan)
			if !seenClass[cls] {
				seenClass[cls] = true
				res.Findings = append(res.Findings, c35Finding{Class: cls,
					Summary: fmt.Sprintf("Parse(%q) panicked in %s: %s", c35Clip(text), pan.Frame, pan.Msg),
					Replay: map[string]any{"query": text, "query_hex": fmt.Sprintf("%x", text), "valid_utf8": utf8.ValidString(text), "panic": pan.Msg, "frame": pan.Frame,
						"len_raw": len(strings.TrimSpace(text)), "len_lower": len(strings.ToLower(strings.TrimSpace(text))), "job_kind": job.Kind, "sites": job.Sites}})
			}
		case err != nil:
			res.Outcomes = append(res.Outcomes, "err:"+err.Error())
		default:
			res.Outcomes = append(res.Outcomes, "ok:"+string(q.Type))
		}
	}
	if strings.HasPrefix(job.Kind, "meta") && len(job.Texts) > 1 {
		base := string(job.Texts[0])
		for _, vb := range job.Texts[1:] {
			variant := string(vb)
			field, detail := c35Compare(base, variant)
			if field == "" {
				continue
			}
			cls := "keyword_case_changes_query:" + field
			if sb := c35Stabilize(base); sb != base {
				if f2, _ := c35Compare(sb, c35Stabilize(variant)); f2 == "" {
					cls = "keyword_case_changes_query_lowercase_length_shift"
				}
			}
			if seenClass[cls] {
				continue
			}
			seenClass[cls] = true
			res.Findings = append(res.Findings, c35Finding{Class: cls,
				Summary: fmt.Sprintf("keyword case changes the parsed query (%s): %q vs %q", field, c35Clip(base), c35Clip(variant)),
				Replay:  map[string]any{"query_a": base, "query_b": variant, "field": field, "parsed": detail, "job_kind": job.Kind, "sites": job.Sites}})
		}
	}
	runtime.ReadMemStats(&ms)
	res.Alloc = ms.TotalAlloc - before
	return res
}

func c35Clip(s string) string {
	if len(s) > 160 {
		return s[:160] + fmt.Sprintf("…(%d bytes)", len(s))
	}
	return s
}

// TestVerifC35Child is the crash box: it is only ever started by the parent
// (TestVerifC35Parse) with VERIF_C35_IN set, and evaluates jobs [start, end).
func TestVerifC35Child(t *testing.T) {
	in := os.Getenv("VERIF_C35_IN")
	if in == "" {
		t.Skip("crash-box child: started by TestVerifC35Parse only")
	}
	// inputs are at most a few dozen KiB, so legitimate recursion (nested EXPLAIN) stays far below this;
	// the default 1 GiB limit would only make a runaway recursion slow and memory-hungry to detect
	debug.SetMaxStack(64 << 20)
	c35HeapGuard()
	start, _ := strconv.Atoi(os.Getenv("VERIF_C35_START"))
	only := os.Getenv("VERIF_C35_ONLY") == "1" // confirmation run: job `start` alone
	shard, _ := strconv.Atoi(os.Getenv("VERIF_C35_SHARD"))
	nshards, _ := strconv.Atoi(os.Getenv("VERIF_C35_NSHARDS"))
	if nshards < 1 {
		nshards = 1
	}
	raw, err := os.ReadFile(in)
	if err != nil {
		t.Fatalf("child: %v", err)
	}
	var jobs []c35Job
	if err := json.Unmarshal(raw, &jobs); err != nil {
		t.Fatalf("child: %v", err)
	}
	out, err := os.Create(os.Getenv("VERIF_C35_OUT"))
	if err != nil {
		t.Fatalf("child: %v", err)
	}
	defer out.Close()
	prog, err := os.OpenFile(os.Getenv("VERIF_C35_PROGRESS"), os.O_CREATE|os.O_WRONLY, 0o644)
	if err != nil {
		t.Fatalf("child: %v", err)
	}
	defer prog.Close()
	w := bufio.NewWriter(out)
	for i := start; i < len(jobs); i++ {
		if only && i != start {
			break
		}
		if i%nshards != shard && !only {
			continue
		}
		// the index is on disk before the target is called: a death is attributed to it
		if _, err := prog.WriteAt([]byte(fmt.Sprintf("%012d", i)), 0); err != nil {
			t.Fatalf("child: %v", err)
		}
		res := c35Eval(i, jobs[i])
		b, _ := json.Marshal(res)
		w.Write(b)
		w.WriteByte('\n')
		if len(res.Findings) > 0 || i%256 == 0 || only {
			w.Flush()
		}
	}
	b, _ := json.Marshal(c35Result{Job: len(jobs), Done: true})
	w.Write(b)
	w.WriteByte('\n')
	w.Flush()
}

// c35HeapLimit: live heap above which the crash-box child gives up as "out of
// memory". Inputs are below 64 KiB and the parser keeps nothing between calls; the
// job list itself is a few dozen MiB.
const c35HeapLimit = 3 << 30

// c35HeapGuard makes runaway allocation a quick, attributable process death
// instead of an exhausted machine.
func c35HeapGuard() {
	debug.SetMemoryLimit(c35HeapLimit)
	go func() {
		var ms runtime.MemStats
		for {
			time.Sleep(200 * time.Millisecond)
			runtime.ReadMemStats(&ms)
			if ms.HeapAlloc > c35HeapLimit {
				fmt.Fprintf(os.Stderr, "fatal error: verif heap guard: out of memory (live heap %d bytes > limit %d)\n", ms.HeapAlloc, uint64(c35HeapLimit))
				os.Exit(96)
			}
		}
	}()
}

func c35Jobs(t *testing.T, r *verifkit.Run, rs gen.RuneSet) []c35Job {
	n := r.N(4000, 80000)
	jobs := make([]c35Job, 0, n+n/2)
	checkKW := func(q gen.Q) {
		if m := gen.CheckKeywords(q); len(m) > 0 {
			t.Fatalf("generator keyword list is incomplete: %q (statement %q)", m, q.String())
		}
	}
	idOrStr := map[int]bool{gen.ID: true, gen.STR: true}
	for i := 0; i < n; i++ {
		rng := r.Rand(i)
		switch i % 4 {
		case 0:
			q := gen.Gen(rng)
			checkKW(q)
			j := c35Job{Kind: "meta_ascii", Sig: q.Sig(), Texts: [][]byte{[]byte(q.String())}}
			for k := 0; k < 3; k++ {
				j.Texts = append(j.Texts, []byte(q.FlipCase(rng).String()))
			}
			jobs = append(jobs, j)
		case 1:
			// a valid statement whose identifiers / string literals carry length-changing runes
			h := gen.Gen(rng).WithRunesIn(rng, rs, idOrStr)
			j := c35Job{Kind: "meta_unicode", Sig: h.Q.Sig(), Texts: [][]byte{[]byte(h.Text)}, Sites: h.Sites, Longer: h.Longer, Shorter: h.Shorter}
			for k := 0; k < 3; k++ {
				j.Texts = append(j.Texts, []byte(h.Q.FlipCase(rng).String()))
			}
			jobs = append(jobs, j)
		case 2:
			h := gen.Gen(rng).WithRunes(rng, rs)
			jobs = append(jobs, c35Job{Kind: "hostile", Sig: h.Q.Sig(), Texts: [][]byte{[]byte(h.Text), []byte(h.Q.FlipCase(rng).String())}, Sites: h.Sites, Longer: h.Longer, Shorter: h.Shorter})
		default:
			s, how := gen.Noise(rng, rs, r.Thorough() && i%64 == 3)
			jobs = append(jobs, c35Job{Kind: "noise", Sig: how, Texts: [][]byte{[]byte(s)}})
		}
	}
	// identifiers that contain every keyword of the generator's list as prefix / suffix / infix, at every
	// identifier site and at the very end of statements and clauses (PRNG indices above the first family's)
	for i := 0; i < n/4; i++ {
		rng := r.Rand(n + i)
		q := gen.GenEmbed(rng)
		j := c35Job{Kind: "meta_embed", Sig: q.Sig(), Texts: [][]byte{[]byte(q.String())}, EndKw: q.EndKw, Feats: q.Feats}
		if q.Punct {
			// a name like from-x or x.last contains the keyword as a whole word: which tokens are keywords is then
			// read differently by the parser than by the generator, so the case variants are only watched for crashes
			j.Kind = "embed_punct"
			j.Feats = append(j.Feats, "kwid_punct")
		}
		for k := 0; k < 3; k++ {
			j.Texts = append(j.Texts, []byte(q.FlipCase(rng).String()))
		}
		jobs = append(jobs, j)
	}
	for i := 0; i < n/8; i++ {
		s, how := gen.EmbedNoise(r.Rand(2*n + i))
		jobs = append(jobs, c35Job{Kind: "embed_noise", Sig: how, Texts: [][]byte{[]byte(s)}})
	}
	// white space: statements of every kind whose separators (after every keyword, identifier, literal and punctuation mark,
	// in front of and behind the statement) come from the part of unicode.IsSpace outside the ASCII blanks, two of three,
	// or from those and near-space runes that unicode.IsSpace rejects (zero-width space, BOM, soft hyphen, ...), one of three.
	// Which of these runes separate tokens and whether the words between them are keywords is the parser's business, so these
	// statements and a keyword-case variant of each are watched for crashes only.
	ss := gen.Spaces()
	for i := 0; i < n/4; i++ {
		rng := r.Rand(3*n + i)
		var q gen.Q
		if i%2 == 0 {
			q = gen.GenKind(rng, gen.StatementKinds[(i/2)%len(gen.StatementKinds)])
		} else {
			q = gen.Gen(rng)
		}
		near := i%3 == 2
		sp := q.WithSpaces(rng, ss, near)
		j := c35Job{Kind: "uspace", Sig: sp.Mode + ":" + q.Sig(), Texts: [][]byte{[]byte(sp.Text), []byte(sp.Q.FlipCase(rng).String())}, Mode: sp.Mode, AfterKw: sp.AfterKw, StKind: q.Kind}
		if near {
			j.Kind = "nearspace"
		}
		seen := map[rune]bool{}
		for _, ru := range sp.Runes {
			if !seen[ru] {
				seen[ru] = true
				cls := "near"
				if unicode.IsSpace(ru) {
					cls = "exotic"
				}
				j.Runes = append(j.Runes, fmt.Sprintf("%s:U+%04X", cls, ru))
			}
		}
		jobs = append(jobs, j)
	}
	for i := 0; i < n/8; i++ {
		s, how := gen.SpaceNoise(r.Rand(4*n+i), ss, r.Thorough() && i%32 == 3)
		jobs = append(jobs, c35Job{Kind: "space_noise", Sig: how, Texts: [][]byte{[]byte(s)}})
	}
	// the probe of DESIGN.md §5 and its neighbours are always part of the list
	for _, s := range []string{"select ȺȺȺȺȺȺȺȺȺȺ from t", "select Ⱥ from t", "select * from t group by ȺȺȺȺȺȺȺȺȺȺȺȺ", "select * from t order by ȺȺȺȺȺȺȺȺȺȺȺȺ",
		"select * from t join u on ȺȺȺȺȺȺȺȺȺȺȺȺ", "select İİİİİİİİİİ from t", "select KKKK from t group by K", "select \xff\xff\xff\xff from t", "explain select ȺȺȺȺȺȺȺȺȺȺ from t"} {
		jobs = append(jobs, c35Job{Kind: "hostile", Sig: "fixed", Texts: [][]byte{[]byte(s)}, Sites: []string{"fixed"}, Longer: 1})
	}
	return jobs
}

func TestVerifC35Parse(t *testing.T) {
	r := verifkit.Start(t, "C35", "parse")
	defer r.Finish("crash box (child process, index logged before each call) over sql.Parse: (1) grammar-generated statements of every kind/clause, (2) the same with runes whose lower-case form has a different UTF-8 length (both directions, set computed from the unicode tables) placed before/inside/after/instead of keywords, identifiers and literals, (3) noise (bytes, token soup, truncations, invalid UTF-8, repeated clause keywords), (4) grammar-generated statements whose identifiers (topics, aliases, columns, AS names, GROUP BY / ORDER BY columns, JSON path members) contain every keyword of the generator's list as a proper prefix, suffix or infix of a longer word (fromage, xlast, re_scan_2, random letter case) or, rarely, as a whole word set off by '.'/'-' (x.from, last-2: the parser then reads the keyword inside the name as a clause word, so these statements and their case variants are watched for crashes only), half of them cut right after an identifier that follows FROM so that the statement / clause text ENDS in an identifier whose suffix spells a keyword (optionally followed by ';'), (5) texts in which a keyword token is replaced by a word that contains it, or which end in a dangling word glued to a one- or two-word keyword, (6) grammar-generated statements of every kind (show topics / show partitions / describe / explain / select, kinds in turn) whose white space between tokens - after every keyword, identifier, literal and punctuation mark, in front of and behind the statement, also where the statement had none (count<sep>() - is rewritten with runes of unicode.IsSpace outside the ASCII blanks (\\v, U+0085, U+00A0, U+1680, U+2000-200A, U+2028, U+2029, U+202F, U+205F, U+3000: set computed from the unicode tables; \\f and \\r too) and, every third statement, also with near-space runes that unicode.IsSpace rejects (zero-width space/joiners, BOM, soft hyphen, word joiner, ASCII FS/GS/RS/US, fillers, ...), in five modes (one separator / all / exactly those after a keyword / half of them / drawn from all of unicode.IsSpace), separators of 1-3 runes with the exotic rune first or after a plain blank, each with one keyword-case variant; every keyword of the generator's list is seen directly followed by such a rune; (7) white-space noise: token soup with such separators, spaced statements cut at (or inside) a rune, a keyword plus such a separator repeated up to 200 (thorough 4000) times, blank-only texts, such a rune inside a token, dangling clause keywords. Families 6 and 7 are watched for crashes only (whether such a rune separates tokens is the parser's decision). Violation = Parse panics, the process dies (stack overflow, fatal error, live heap above 3 GiB = out of memory) or Parse does not return. A death is attributed to the index logged before the call and re-run alone in a fresh process (a death that the runtime did not report and that does not repeat is inconclusive); a child without progress for 30 s of its CPU time (or 150 s) is killed and the job re-run alone: a hang only if that process burns 60 s of CPU time on the single job. Metamorphic: 3 random ASCII-case variants of the keyword tokens of each generated statement (ASCII, with non-ASCII identifiers/literals, and with keyword-containing identifiers, which are never case-changed) must give the same error status and, when valid, a Query equal field by field (SelectColumn.Raw, the echoed input text, compared ASCII-case-insensitively). non-trivial = a statement that reached the select/explain/show/describe code with a keyword-case variant that differs from the base, or a hostile/noise text that got past statement dispatch",
		"a panic recovered inside the child counts as a crash of Parse (server.go has no recover around it: see leg server)",
		"keywords = the dialect's clause words and SQL function names (count/min/max/sum/avg/json_*); identifiers and literals are never case-changed",
		"violation classes ending in _lowercase_length_shift are assigned by a counterfactual: the same text with every length-changing rune replaced by a same-length stable rune behaves correctly")
	rs := gen.LengthChangingRunes()
	r.Note("runes_lower_longer", len(rs.Longer))
	r.Note("runes_lower_shorter", len(rs.Shorter))
	if len(rs.Longer) == 0 || len(rs.Shorter) == 0 {
		t.Fatalf("unicode tables yield no length-changing runes: %d/%d", len(rs.Longer), len(rs.Shorter))
	}
	jobs := c35Jobs(t, r, rs)
	replaying := false
	if rp := verifkit.Replay(); rp != nil && rp["leg"] == "parse" {
		// bin/check --replay <witness>: only the witness is evaluated (floors do not apply)
		if w, ok := rp["replay"].(map[string]any); ok {
			if j, ok := c35ReplayJob(w); ok {
				jobs, replaying = []c35Job{j}, true
			}
		}
	}
	scratch := os.Getenv("VERIF_SCRATCH")
	if scratch == "" {
		scratch = t.TempDir()
	}
	dir, err := os.MkdirTemp(scratch, "c35-")
	if err != nil {
		t.Fatal(err)
	}
	defer os.RemoveAll(dir)
	inPath := filepath.Join(dir, "jobs.json")
	b, _ := json.Marshal(jobs)
	if err := os.WriteFile(inPath, b, 0o644); err != nil {
		t.Fatal(err)
	}

	// 4 crash boxes work on disjoint residue classes of the job list
	const shards = 4
	results := make(map[int]c35Result, len(jobs))
	var mu sync.Mutex
	var wg sync.WaitGroup
	deaths, hangs, suspicions := 0, 0, 0
	var fatal []string
	record := func(rs []c35Result) {
		mu.Lock()
		for _, res := range rs {
			results[res.Job] = res
		}
		mu.Unlock()
	}
	for sh := 0; sh < shards; sh++ {
		wg.Add(1)
		go func(sh int) {
			defer wg.Done()
			start, myDeaths := 0, 0
			for round := 0; start < len(jobs); round++ {
				run := c35RunChild(dir, fmt.Sprintf("%d-%d", sh, round), inPath, start, sh, shards, false, c35Stall, 0, 0)
				record(run.results)
				if run.done && run.err == nil {
					return
				}
				if run.at < 0 || run.done {
					// no job started, or all jobs evaluated and the binary failed afterwards: harness problem
					mu.Lock()
					fatal = append(fatal, fmt.Sprintf("crash-box child %d failed outside a job (hung=%v): %v\n%s", sh, run.hung, run.err, c35Tail(run.stderr)))
					mu.Unlock()
					return
				}
				at := run.at
				job := jobs[at]
				start = at + 1
				// confirmation: the suspected job alone, in a fresh process
				onePath := filepath.Join(dir, fmt.Sprintf("one-%d-%d.json", sh, round))
				ob, _ := json.Marshal([]c35Job{job})
				if err := os.WriteFile(onePath, ob, 0o644); err != nil {
					mu.Lock()
					fatal = append(fatal, err.Error())
					mu.Unlock()
					return
				}
				again := c35RunChild(dir, fmt.Sprintf("%d-%d-confirm", sh, round), onePath, 0, 0, 1, true, 0, c35ConfirmLimit, c35HangCPU)
				replay := map[string]any{"texts_hex": c35Hex(job.Texts), "first_text": string(job.Texts[0]), "job_kind": job.Kind, "exit": fmt.Sprint(run.err), "stderr_tail": c35Tail(run.stderr),
					"rerun_alone_exit": fmt.Sprint(again.err), "rerun_alone_hung": again.hung, "rerun_alone_cpu_s": again.cpu.Seconds(), "rerun_alone_stderr_tail": c35Tail(again.stderr)}
				switch {
				case again.done && again.err == nil:
					// alone, the job is evaluated to the end
					for _, res := range again.results {
						res.Job = at
						record([]c35Result{res})
					}
					if !run.hung && c35RuntimeReport(run.stderr) {
						// the runtime itself reported the crash: a violation even though it did not repeat
						myDeaths++
						r.Violation("parse_process_death_"+c35DeathKind(run.stderr), fmt.Sprintf("the process died while parsing job %d (%s), not reproduced by the job alone: %q", at, job.Kind, c35Clip(string(job.Texts[0]))), replay)
						mu.Lock()
						deaths++
						mu.Unlock()
					} else if run.hung {
						mu.Lock()
						suspicions++
						mu.Unlock()
					} else {
						r.Inconclusive(fmt.Sprintf("crash box %d ended (%v) at job %d without a report of the Go runtime, and the job alone is parsed normally: killed from outside?", sh, run.err, at))
					}
				case again.hung:
					myDeaths++
					if again.cpu >= c35HangCPU {
						r.Violation("parse_process_hang", fmt.Sprintf("Parse does not return: job %d (%s) alone consumed %.0f s of CPU time without finishing: %q", at, job.Kind, again.cpu.Seconds(), c35Clip(string(job.Texts[0]))), replay)
						mu.Lock()
						hangs++
						mu.Unlock()
					} else {
						r.Inconclusive(fmt.Sprintf("job %d did not finish within the watchdog but the process got only %.1f s of CPU time: nothing decided for it", at, again.cpu.Seconds()))
					}
				default:
					// the job alone kills the process as well
					myDeaths++
					all := run.stderr + "\n" + again.stderr
					if run.hung {
						all = again.stderr
					}
					r.Violation("parse_process_death_"+c35DeathKind(all), fmt.Sprintf("the process died while parsing job %d (%s), and again with that job alone: %q", at, job.Kind, c35Clip(string(job.Texts[0]))), replay)
					mu.Lock()
					deaths++
					mu.Unlock()
				}
				if myDeaths >= 3 {
					r.Inconclusive(fmt.Sprintf("crash box %d gave up after %d process deaths / hangs; its jobs from %d on were not executed", sh, myDeaths, start))
					return
				}
			}
		}(sh)
	}
	wg.Wait()
	if len(fatal) > 0 {
		t.Fatal(strings.Join(fatal, "\n"))
	}
	r.Count("child_process_hangs", int64(hangs))
	r.Count("watchdog_suspicions_not_confirmed", int64(suspicions))
	r.Count("child_process_deaths", int64(deaths))

	var maxAlloc uint64
	for i, job := range jobs {
		// one white-space statement that was parsed to the end is sampled first (the kit keeps 4 samples)
		if res, ok := results[i]; ok && job.Kind == "uspace" && job.Mode == "after_kw" && len(res.Outcomes) > 0 && strings.HasPrefix(res.Outcomes[0], "ok:") {
			r.Sample(map[string]any{"kind": job.Kind, "mode": job.Mode, "after_keywords": job.AfterKw, "separator_runes": job.Runes, "texts_go_quoted": []string{strconv.QuoteToASCII(c35Clip(string(job.Texts[0]))), strconv.QuoteToASCII(c35Clip(string(job.Texts[1])))}, "outcomes": res.Outcomes})
			break
		}
	}
	for i, job := range jobs {
		res, ok := results[i]
		if !ok {
			continue
		}
		if res.Alloc > maxAlloc {
			maxAlloc = res.Alloc
		}
		for _, f := range res.Findings {
			r.Violation(f.Class, f.Summary, f.Replay)
		}
		reached, valid, panicked := false, false, false
		for _, o := range res.Outcomes {
			if strings.HasPrefix(o, "ok:") {
				valid, reached = true, true
			} else if strings.HasPrefix(o, "panic:") {
				panicked, reached = true, true
			} else if o != "err:unsupported statement" && o != "err:empty query" {
				reached = true
			}
		}
		r.Count("jobs_"+job.Kind, 1)
		r.Count("parse_calls", int64(len(res.Outcomes)))
		if panicked {
			r.Count("jobs_with_panic", 1)
		}
		nontrivial := reached
		switch job.Kind {
		case "meta_ascii", "meta_unicode", "meta_embed":
			differs := false
			for _, v := range job.Texts[1:] {
				if !bytes.Equal(v, job.Texts[0]) {
					differs = true
				}
			}
			nontrivial = reached && differs
			if valid && differs {
				r.Count("valid_statements_with_case_variants_"+job.Kind, 1)
				if job.Kind != "meta_embed" {
					r.Seen("valid_statement_shapes", job.Sig)
				}
			}
		}
		switch job.Kind {
		case "meta_embed", "embed_punct":
			{
				kwid := false
				for _, f := range job.Feats {
					if strings.HasPrefix(f, "kwid_") {
						r.Seen("embed_forms", strings.TrimPrefix(f, "kwid_"))
						kwid = true
					}
					if strings.HasPrefix(f, "cut_after_") && reached {
						r.Seen("embed_statement_ends_after", strings.TrimPrefix(f, "cut_after_"))
					}
				}
				if job.EndKw != "" && reached {
					kwid = true
					r.Count("embed_statements_ending_in_keyword_suffix", 1)
					r.Seen("embed_end_keywords", job.EndKw)
					if valid {
						r.Count("embed_valid_statements_ending_in_keyword_suffix", 1)
					}
				}
				nontrivial = nontrivial && kwid
			}
		case "hostile":
			if reached {
				r.Count("hostile_reached_parser", 1)
				if job.Longer > 0 {
					r.Count("hostile_with_longer_lowercase", 1)
				}
				if job.Shorter > 0 {
					r.Count("hostile_with_shorter_lowercase", 1)
				}
			}
		case "uspace", "nearspace":
			r.Seen("space_modes", job.Mode)
			r.Seen("space_statement_kinds_by_mode", job.StKind+":"+job.Mode)
			for _, kw := range job.AfterKw {
				r.Seen("space_after_keyword", kw)
			}
			for _, ru := range job.Runes {
				if strings.HasPrefix(ru, "exotic:") {
					r.Seen("space_runes_exotic", ru)
				} else {
					r.Seen("space_runes_near", ru)
				}
			}
			if reached {
				r.Count(job.Kind+"_reached_parser", 1)
				r.Seen("space_statement_kinds_reached", job.StKind)
			}
			if valid {
				r.Count(job.Kind+"_valid", 1)
			}
		case "space_noise":
			r.Seen("space_noise_kinds", job.Sig)
		case "noise":
			r.Seen("noise_kinds", job.Sig)
		case "embed_noise":
			r.Seen("embed_noise_kinds", job.Sig)
		}
		for _, s := range job.Sites {
			r.Seen("rune_sites", s)
		}
		r.Case(verifkit.Hash(job.Kind, c35Hex(job.Texts)), nontrivial)
		if i < 3 || (job.Kind == "noise" && i < 8) {
			r.Sample(map[string]any{"kind": job.Kind, "texts": c35Strings(job.Texts), "outcomes": res.Outcomes})
		}
	}
	r.Note("max_totalalloc_per_job_bytes", maxAlloc)
	r.Note("jobs", len(jobs))
	if replaying {
		return
	}
	// floors of the older families keep their size: they are relative to the jobs of those families
	legacy, spaced := 0, 0
	for _, job := range jobs {
		switch job.Kind {
		case "uspace", "nearspace":
			spaced++
		case "space_noise":
		default:
			legacy++
		}
	}
	r.Floor("valid_statements_with_case_variants_meta_ascii", int64(legacy/8))
	r.Floor("valid_statements_with_case_variants_meta_unicode", int64(legacy/40))
	r.Floor("hostile_with_longer_lowercase", int64(legacy/16))
	r.Floor("hostile_with_shorter_lowercase", int64(legacy/64))
	r.Floor("valid_statement_shapes", 40)
	r.Floor("rune_sites", 20)
	r.Floor("noise_kinds", 8)
	r.Floor("valid_statements_with_case_variants_meta_embed", int64(legacy/24))
	r.Floor("embed_statements_ending_in_keyword_suffix", int64(legacy/40))
	r.Floor("embed_valid_statements_ending_in_keyword_suffix", int64(legacy/80))
	r.Floor("embed_end_keywords", int64(len(gen.SingleKeywords())))
	r.Floor("embed_statement_ends_after", 5)
	r.Floor("embed_forms", 4)
	r.Floor("embed_noise_kinds", 4)
	sp := gen.Spaces()
	r.Note("space_runes_exotic_alphabet", len(sp.Exotic))
	r.Note("space_runes_near_alphabet", len(sp.Near))
	r.Floor("space_runes_exotic", int64(len(sp.Exotic)))
	r.Floor("space_runes_near", int64(len(sp.Near)))
	r.Floor("space_after_keyword", int64(len(gen.Keywords)-2))
	r.Floor("space_modes", 5)
	r.Floor("space_statement_kinds_by_mode", 25)
	r.Floor("space_statement_kinds_reached", int64(len(gen.StatementKinds)))
	r.Floor("uspace_reached_parser", int64(spaced/3))
	r.Floor("uspace_valid", int64(spaced/8))
	r.Floor("space_noise_kinds", 6)
}

// Watchdogs of the crash box. A child whose progress index has not moved while
// the process consumed c35StallCPU of CPU time (or for c35Stall of wall time) is
// suspected to hang: a Parse call on < 64 KiB takes milliseconds. The suspicion
// alone decides nothing: the job is re-run alone in a fresh process, and only if
// that process burns c35HangCPU of CPU time (read from /proc, not wall time)
// without finishing the single job does it count as a hang.
const (
	c35Stall        = 150 * time.Second
	c35StallCPU     = 30 * time.Second
	c35ConfirmLimit = 900 * time.Second
	c35HangCPU      = 60 * time.Second
)

// c35ProcCPU: user+system CPU time of a running process (Linux /proc; 0 if unknown).
func c35ProcCPU(pid int) time.Duration {
	b, err := os.ReadFile(fmt.Sprintf("/proc/%d/stat", pid))
	if err != nil {
		return 0
	}
	s := string(b)
	i := strings.LastIndexByte(s, ')') // the command name may contain blanks
	if i < 0 {
		return 0
	}
	f := strings.Fields(s[i+1:])
	if len(f) < 13 {
		return 0
	}
	ut, _ := strconv.ParseInt(f[11], 10, 64) // field 14 of the line
	st, _ := strconv.ParseInt(f[12], 10, 64) // field 15
	return time.Duration(ut+st) * (time.Second / 100)
}

type c35ChildRun struct {
	done    bool  // the end marker was written
	err     error // exit status
	hung    bool  // killed by the watchdog
	at      int   // last index logged before a call (-1: none)
	cpu     time.Duration
	stderr  string
	results []c35Result
}

// c35RunChild runs one crash-box process over jobs[start:] of residue class
// shard (only: job start alone) and collects what it wrote.
func c35RunChild(dir, tag, inPath string, start, shard, nshards int, only bool, stall, limit, cpuLimit time.Duration) c35ChildRun {
	outPath := filepath.Join(dir, "out-"+tag+".jsonl")
	progPath := filepath.Join(dir, "progress-"+tag)
	cmd := exec.Command(os.Args[0], "-test.run=^TestVerifC35Child$", "-test.timeout=60m")
	cmd.Env = append(os.Environ(), "VERIF_C35_IN="+inPath, "VERIF_C35_OUT="+outPath, "VERIF_C35_PROGRESS="+progPath,
		"VERIF_C35_START="+strconv.Itoa(start), "VERIF_C35_SHARD="+strconv.Itoa(shard), "VERIF_C35_NSHARDS="+strconv.Itoa(nshards))
	if only {
		cmd.Env = append(cmd.Env, "VERIF_C35_ONLY=1")
	}
	var stderr bytes.Buffer
	cmd.Stdout = &stderr
	cmd.Stderr = &stderr
	run := c35ChildRun{at: -1}
	if err := cmd.Start(); err != nil {
		run.err = err
		return run
	}
	waitCh := make(chan error, 1)
	go func() { waitCh <- cmd.Wait() }()
	begin, lastChange, last := time.Now(), time.Now(), ""
	var cpuAtChange time.Duration
	tick := time.NewTicker(500 * time.Millisecond)
	defer tick.Stop()
wait:
	for {
		select {
		case err := <-waitCh:
			run.err = err
			break wait
		case <-tick.C:
			pb, _ := os.ReadFile(progPath)
			cpu := c35ProcCPU(cmd.Process.Pid)
			if cur := string(pb); cur != last {
				last, lastChange, cpuAtChange = cur, time.Now(), cpu
			}
			stalled := stall > 0 && last != "" && (time.Since(lastChange) > stall || cpu-cpuAtChange > c35StallCPU)
			if cpuLimit > 0 && cpu >= cpuLimit {
				stalled = true
			}
			neverStarted := last == "" && time.Since(begin) > 20*time.Minute
			overLimit := limit > 0 && time.Since(begin) > limit
			if stalled || neverStarted || overLimit {
				run.hung = true
				cmd.Process.Kill()
				run.err = <-waitCh
				break wait
			}
		}
	}
	if ps := cmd.ProcessState; ps != nil {
		run.cpu = ps.UserTime() + ps.SystemTime()
	}
	run.stderr = stderr.String()
	if f, err := os.Open(outPath); err == nil {
		sc := bufio.NewScanner(f)
		sc.Buffer(make([]byte, 1<<20), 1<<28)
		for sc.Scan() {
			var res c35Result
			if json.Unmarshal(sc.Bytes(), &res) != nil {
				continue // torn last line of a dead child
			}
			if res.Done {
				run.done = true
				continue
			}
			run.results = append(run.results, res)
		}
		f.Close()
	}
	if pb, err := os.ReadFile(progPath); err == nil {
		if at, err := strconv.Atoi(strings.TrimSpace(string(pb))); err == nil {
			run.at = at
		}
	}
	return run
}

// c35RuntimeReport: the Go runtime (or the heap guard) announced the end of the process itself.
func c35RuntimeReport(stderr string) bool {
	return strings.Contains(stderr, "fatal error:") || strings.Contains(stderr, "goroutine stack exceeds") || strings.Contains(stderr, "panic: ") || strings.Contains(stderr, "SIGSEGV")
}

func c35DeathKind(all string) string {
	switch {
	case strings.Contains(all, "stack overflow") || strings.Contains(all, "goroutine stack exceeds"):
		return "stack_overflow"
	case strings.Contains(all, "out of memory") || strings.Contains(all, "cannot allocate memory"):
		return "out_of_memory"
	case strings.Contains(all, "fatal error:"):
		return "fatal_error"
	}
	return "exit"
}

func c35ReplayJob(w map[string]any) (c35Job, bool) {
	unhex := func(v any) ([]byte, bool) {
		h, ok := v.(string)
		if !ok {
			return nil, false
		}
		b, err := hex.DecodeString(h)
		return b, err == nil
	}
	if b, ok := unhex(w["query_hex"]); ok {
		return c35Job{Kind: "hostile", Sig: "replay", Texts: [][]byte{b}, Sites: []string{"replay"}, Longer: 1}, true
	}
	if a, ok := w["query_a"].(string); ok {
		if b, ok := w["query_b"].(string); ok {
			return c35Job{Kind: "meta_unicode", Sig: "replay", Texts: [][]byte{[]byte(a), []byte(b)}}, true
		}
	}
	if l, ok := w["texts_hex"].([]any); ok && len(l) > 0 {
		j := c35Job{Kind: "hostile", Sig: "replay", Sites: []string{"replay"}, Longer: 1}
		for _, v := range l {
			if b, ok := unhex(v); ok {
				j.Texts = append(j.Texts, b)
			}
		}
		return j, len(j.Texts) > 0
	}
	return c35Job{}, false
}

func c35Tail(s string) string {
	lines := strings.Split(s, "\n")
	if len(lines) > 40 {
		lines = append(lines[:25], lines[len(lines)-15:]...)
	}
	return strings.Join(lines, "\n")
}

func c35Hex(texts [][]byte) []string {
	out := make([]string, len(texts))
	for i, t := range texts {
		out[i] = fmt.Sprintf("%x", t)
	}
	return out
}

func c35Strings(texts [][]byte) []string {
	out := make([]string, len(texts))
	for i, t := range texts {
		out[i] = c35Clip(string(t))
	}
	return out
}
