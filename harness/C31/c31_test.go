//go:build verif

package main

// C31 — LFS produce rewriting changes only the flagged values.
//
// Workload: PRNG-built produce requests (wire-encoded with kmsg, parsed back
// with the proxy's own protocol.ParseRequest exactly like handleProduceRouting
// does) are handed to the real (*lfsModule).rewriteProduceRecords backed by the
// harness S3 stand-in (vfS3, real multipart semantics).
//
// Oracle: written from the statement. Before/after views are produced by the
// harness-side reference codec (kit kbatch + own decompression via stdlib gzip /
// klauspost s2+zstd / pierrec lz4 — not the proxy's decode path).

import (
	"bytes"
	"compress/gzip"
	"context"
	"crypto/md5"
	"crypto/sha256"
	"encoding/binary"
	"encoding/hex"
	"encoding/json"
	"fmt"
	"hash/crc32"
	"io"
	"log/slog"
	"math/rand"
	"os"
	"sort"
	"strconv"
	"strings"
	"sync"
	"sync/atomic"
	"testing"
	"time"

	"github.com/KafScale/platform/internal/verifkit"
	"github.com/KafScale/platform/internal/verifkit/kbatch"
	"github.com/KafScale/platform/pkg/lfs"
	"github.com/KafScale/platform/pkg/protocol"
	"github.com/klauspost/compress/s2"
	"github.com/klauspost/compress/zstd"
	"github.com/pierrec/lz4/v4"
	"github.com/twmb/franz-go/pkg/kmsg"
)

const c31Flag = "LFS_BLOB"

var c31CodecNames = []string{"none", "gzip", "snappy", "lz4", "zstd"}

// ---------------------------------------------------------------------------
// reference compression (generation side) and decompression (oracle side)
// ---------------------------------------------------------------------------

var c31XerialMagic = []byte{0x82, 'S', 'N', 'A', 'P', 'P', 'Y', 0}

func c31Compress(codec int, xerial bool, raw []byte) ([]byte, error) {
	switch codec {
	case 0:
		return raw, nil
	case 1:
		var b bytes.Buffer
		w := gzip.NewWriter(&b)
		if _, err := w.Write(raw); err != nil {
			return nil, err
		}
		if err := w.Close(); err != nil {
			return nil, err
		}
		return b.Bytes(), nil
	case 2:
		if !xerial {
			return s2.EncodeSnappy(nil, raw), nil
		}
		// xerial framing used by the Java client: magic, version, compat, then [len][block]*
		out := append([]byte{}, c31XerialMagic...)
		out = binary.BigEndian.AppendUint32(out, 1)
		out = binary.BigEndian.AppendUint32(out, 1)
		for len(raw) > 0 {
			n := len(raw)
			if n > 700 { // small blocks so that several blocks occur
				n = 700
			}
			blk := s2.EncodeSnappy(nil, raw[:n])
			out = binary.BigEndian.AppendUint32(out, uint32(len(blk)))
			out = append(out, blk...)
			raw = raw[n:]
		}
		return out, nil
	case 3:
		var b bytes.Buffer
		w := lz4.NewWriter(&b)
		if _, err := w.Write(raw); err != nil {
			return nil, err
		}
		if err := w.Close(); err != nil {
			return nil, err
		}
		return b.Bytes(), nil
	case 4:
		return c31ZstdEnc().EncodeAll(raw, nil), nil
	}
	return nil, fmt.Errorf("codec %d", codec)
}

// one encoder/decoder for the whole leg: constructing them per batch is slow under -race
var c31ZstdEnc = sync.OnceValue(func() *zstd.Encoder {
	e, err := zstd.NewWriter(nil, zstd.WithEncoderConcurrency(1))
	if err != nil {
		panic(err)
	}
	return e
})

var c31ZstdDec = sync.OnceValue(func() *zstd.Decoder {
	d, err := zstd.NewReader(nil, zstd.WithDecoderConcurrency(1))
	if err != nil {
		panic(err)
	}
	return d
})

func c31Decompress(codec int, data []byte) ([]byte, error) {
	switch codec {
	case 0:
		return data, nil
	case 1:
		r, err := gzip.NewReader(bytes.NewReader(data))
		if err != nil {
			return nil, err
		}
		return io.ReadAll(r)
	case 2:
		if len(data) >= 16 && bytes.Equal(data[:8], c31XerialMagic) {
			var out []byte
			p := data[16:]
			for len(p) > 0 {
				if len(p) < 4 {
					return nil, fmt.Errorf("xerial: short block header")
				}
				n := int(binary.BigEndian.Uint32(p))
				p = p[4:]
				if n > len(p) {
					return nil, fmt.Errorf("xerial: block of %d exceeds %d", n, len(p))
				}
				blk, err := s2.Decode(nil, p[:n])
				if err != nil {
					return nil, err
				}
				out = append(out, blk...)
				p = p[n:]
			}
			return out, nil
		}
		return s2.Decode(nil, data)
	case 3:
		return io.ReadAll(lz4.NewReader(bytes.NewReader(data)))
	case 4:
		return c31ZstdDec().DecodeAll(data, nil)
	}
	return nil, fmt.Errorf("unknown codec %d", codec)
}

// c31DecodeBatches is the reference view of a partition's record bytes:
// frames (Length), CRC32C, header fields and — after own decompression —
// exactly NumRecords well-formed records and nothing else.
func c31DecodeBatches(b []byte) ([]kbatch.Batch, [][]byte, error) {
	var out []kbatch.Batch
	var raws [][]byte
	for len(b) > 0 {
		x, n, err := kbatch.Decode(b)
		if err != nil {
			return out, raws, fmt.Errorf("batch %d: %w", len(out), err)
		}
		if codec := int(x.Attributes & 7); codec != 0 {
			plain, err := c31Decompress(codec, x.RawRecords)
			if err != nil {
				return out, raws, fmt.Errorf("batch %d: decompress %s: %w", len(out), c31CodecName(codec), err)
			}
			recs, err := kbatch.DecodeRecords(plain, int(x.NumRecords))
			if err != nil {
				return out, raws, fmt.Errorf("batch %d: %w", len(out), err)
			}
			x.Records = recs
		}
		out = append(out, x)
		raws = append(raws, b[:n])
		b = b[n:]
	}
	return out, raws, nil
}

// c31CodecPrepass walks the frames of the rewritten bytes and compares the codec
// bits of each batch header with the original batch at the same position.
func c31CodecPrepass(after []byte, orig []c31Batch) string {
	for i := 0; len(after) > 0 && i < len(orig); i++ {
		n, err := kbatch.FrameLen(after)
		if err != nil {
			return "" // left to the full decode
		}
		if got := int(binary.BigEndian.Uint16(after[21:]) & 7); got != orig[i].Codec {
			return fmt.Sprintf("batch %d was %s, is %s after the rewrite", i, c31CodecName(orig[i].Codec), c31CodecName(got))
		}
		after = after[n:]
	}
	return ""
}

func c31CodecName(c int) string {
	if c >= 0 && c < len(c31CodecNames) {
		return c31CodecNames[c]
	}
	return fmt.Sprintf("codec%d", c)
}

// ---------------------------------------------------------------------------
// generator
// ---------------------------------------------------------------------------

type c31Batch struct {
	Codec   int
	Xerial  bool
	Hdr     kbatch.Batch // header fields + Records (plain)
	Flagged []bool
	Wire    []byte
}

type c31Part struct {
	Partition int32
	Batches   []c31Batch
	NilRecs   bool
	Legacy    bool // magic-1 message set (produce v2): cannot carry headers, must pass through
	Wire      []byte
}

type c31Topic struct {
	Name  string
	Parts []c31Part
}

type c31Case struct {
	Version     int16
	ChunkSize   int64
	MaxBlob     int64
	DefaultAlg  string
	Topics      []c31Topic
	Legacy      bool
	ErrTrigger  string // non-empty: the request carries a record the proxy must refuse
	NFlagged    int
	NUnflagged  int
	NeighbourUF int // unflagged records living in a batch that also has a flagged record
}

func c31IsFlagged(r kbatch.Record) bool {
	for _, h := range r.Headers {
		if h.Key == c31Flag {
			return true
		}
	}
	return false
}

var c31Topics = []string{"orders", "video.raw", "t-1", "a_b", "X"}

func c31Gen(rng *rand.Rand, ci int) c31Case {
	c := c31Case{Version: []int16{3, 5, 7, 8, 9}[rng.Intn(5)], DefaultAlg: []string{"sha256", "sha256", "md5", "crc32", "none", ""}[rng.Intn(6)]}
	c.ChunkSize = []int64{5 << 20, 5 << 20, 64, 1000, 1}[rng.Intn(5)]
	c.MaxBlob = 5 << 30
	mode := rng.Intn(10) // 0: nothing flagged, 1: everything flagged, else mixed
	wantTrigger := rng.Intn(12) == 0
	seq := 0
	nt := 1 + rng.Intn(3)
	tperm := rng.Perm(len(c31Topics))
	if rng.Intn(30) == 0 {
		// produce v2 with magic-1 message sets: no headers, hence no flag; must reach the broker unchanged
		c.Version, c.Legacy = 2, true
		for ti := 0; ti < nt; ti++ {
			tp := c31Topic{Name: c31Topics[tperm[ti]]}
			for pi, np := 0, 1+rng.Intn(2); pi < np; pi++ {
				p := c31Part{Partition: int32(pi), Legacy: true}
				for k, nm := 0, 1+rng.Intn(4); k < nm; k++ {
					val := make([]byte, rng.Intn(200))
					rng.Read(val)
					if rng.Intn(4) == 0 {
						val = append([]byte("LFS_BLOB"), val...) // the marker as payload text is not a flag
					}
					p.Wire = append(p.Wire, c31LegacyMessage(int64(k), 1700000000000+int64(k), []byte(fmt.Sprintf("k%d", k)), val)...)
				}
				tp.Parts = append(tp.Parts, p)
			}
			c.Topics = append(c.Topics, tp)
		}
		return c
	}
	bigDone := false
	for ti := 0; ti < nt; ti++ {
		tp := c31Topic{Name: c31Topics[tperm[ti]]}
		if ti > 0 && rng.Intn(15) == 0 {
			tp.Name = c.Topics[0].Name // the same topic listed twice
		}
		np := 1 + rng.Intn(3)
		for pi := 0; pi < np; pi++ {
			p := c31Part{Partition: int32(pi * (1 + rng.Intn(3)))}
			nb := rng.Intn(4) // 0..3 batches
			if nb == 0 {
				p.NilRecs = rng.Intn(2) == 0
			}
			for bi := 0; bi < nb; bi++ {
				seq++
				b := c31Batch{Codec: rng.Intn(5)}
				b.Xerial = b.Codec == 2 && rng.Intn(3) == 0
				g := kbatch.Gen(rng, kbatch.GenOpts{MaxRecords: 5, MaxValue: []int{0, 40, 300, 3000}[rng.Intn(4)], HostileTS: true, NullsEmpty: true, MaxHeaders: 3, BaseTS: 1700000000000 + int64(rng.Intn(1000)), ProducerTag: fmt.Sprintf("c31-%d", ci)}, seq)
				g.BaseOffset = []int64{0, 0, 0, 7, 1 << 33}[rng.Intn(5)]
				g.PartitionLeaderEpoch = []int32{-1, 0, 5}[rng.Intn(3)]
				if rng.Intn(3) == 0 {
					g.ProducerID, g.ProducerEpoch, g.BaseSequence = int64(1000+rng.Intn(50)), int16(rng.Intn(4)), int32(rng.Intn(100))
				}
				attrs := int16(b.Codec)
				if rng.Intn(4) == 0 {
					attrs |= 0x08 // LogAppendTime
				}
				if g.ProducerID >= 0 && rng.Intn(3) == 0 {
					attrs |= 0x10 // transactional
				}
				g.Attributes = attrs
				if rng.Intn(8) == 0 { // gapped offset deltas are legal in the format and must survive
					d := int32(0)
					for i := range g.Records {
						d += int32(rng.Intn(3))
						g.Records[i].OffsetDelta = d
						d++
					}
				}
				for i := range g.Records {
					rec := &g.Records[i]
					switch rng.Intn(8) { // null / empty values
					case 0:
						rec.Value = nil
					case 1:
						rec.Value = []byte{}
					}
					if rng.Intn(10) == 0 {
						rec.Attributes = int8(rng.Intn(4))
					}
					if rng.Intn(25) == 0 {
						rec.Key = bytes.Repeat([]byte{byte('a' + rng.Intn(26))}, 1024)
					}
					big := false
					if !bigDone && !wantTrigger && mode != 0 && rng.Intn(1200) == 0 {
						// one value beyond the real 5 MiB chunk size: Upload's multipart branch with production part sizes
						bigDone, big = true, true
						v := make([]byte, 5<<20+1+rng.Intn(70000))
						rng.Read(v[:4096])
						copy(v[4096:], bytes.Repeat(v[:4096], len(v)/4096))
						rec.Value = append(rec.Value[:len(rec.Value):len(rec.Value)], v...)
						c.ChunkSize = 5 << 20
					}
					if rng.Intn(4) == 0 {
						rec.Headers = append(rec.Headers, kbatch.Header{Key: []string{"content-type", "Content-Type", "traceparent", "x-request-id", "LFS_BLOB_X", "lfs_blob"}[rng.Intn(6)], Value: []byte(fmt.Sprintf("hv%d", rng.Intn(50)))})
					}
					if rng.Intn(6) == 0 && len(rec.Headers) > 0 { // duplicate header (same key twice)
						rec.Headers = append(rec.Headers, rec.Headers[rng.Intn(len(rec.Headers))])
					}
					flag := false
					switch mode {
					case 0:
					case 1:
						flag = true
					default:
						flag = rng.Intn(5) < 2
					}
					flag = flag || big
					if !flag {
						continue
					}
					sum := sha256.Sum256(rec.Value)
					var fv []byte
					switch rng.Intn(8) {
					case 0:
						fv = nil
					case 1:
						fv = []byte("  ")
					default:
						fv = []byte{}
					}
					algHdr := ""
					if rng.Intn(5) == 0 {
						algHdr = []string{"sha256", "md5", "crc32", "none", "MD5", " sha256 "}[rng.Intn(6)]
					}
					effAlg := strings.ToLower(strings.TrimSpace(algHdr))
					if effAlg == "" {
						effAlg = c.DefaultAlg
					}
					if effAlg == "" {
						effAlg = "sha256"
					}
					if rng.Intn(4) == 0 && effAlg != "none" { // a correct declared checksum, also in upper case
						s := c31Digest(effAlg, rec.Value)
						if rng.Intn(2) == 0 {
							s = strings.ToUpper(s)
						}
						fv = []byte(s)
					}
					if wantTrigger && c.ErrTrigger == "" {
						switch rng.Intn(4) {
						case 0:
							fv = []byte(hex.EncodeToString(sum[:31]) + "00x")
							if effAlg == "none" {
								algHdr = "sha256"
							}
							c.ErrTrigger = "wrong_checksum"
						case 1:
							algHdr = "sha-3000"
							c.ErrTrigger = "unsupported_alg"
						case 2:
							algHdr = "none"
							fv = []byte("abcd")
							c.ErrTrigger = "checksum_with_alg_none"
						case 3:
							if len(rec.Value) > 1 {
								c.MaxBlob = int64(len(rec.Value) - 1)
								c.ErrTrigger = "blob_exceeds_max"
							}
						}
					}
					fh := kbatch.Header{Key: c31Flag, Value: fv}
					pos := rng.Intn(len(rec.Headers) + 1)
					rec.Headers = append(rec.Headers[:pos:pos], append([]kbatch.Header{fh}, rec.Headers[pos:]...)...)
					if algHdr != "" {
						pos := rng.Intn(len(rec.Headers) + 1)
						rec.Headers = append(rec.Headers[:pos:pos], append([]kbatch.Header{{Key: "LFS_BLOB_ALG", Value: []byte(algHdr)}}, rec.Headers[pos:]...)...)
					}
					if rng.Intn(10) == 0 { // the flag header twice
						rec.Headers = append(rec.Headers, kbatch.Header{Key: c31Flag, Value: []byte{}})
					}
				}
				b.Hdr = g
				anyFlag := false
				for _, rec := range g.Records {
					f := c31IsFlagged(rec)
					b.Flagged = append(b.Flagged, f)
					anyFlag = anyFlag || f
				}
				for _, f := range b.Flagged {
					switch {
					case f:
						c.NFlagged++
					case anyFlag:
						c.NeighbourUF++
						c.NUnflagged++
					default:
						c.NUnflagged++
					}
				}
				p.Batches = append(p.Batches, b)
			}
			tp.Parts = append(tp.Parts, p)
		}
		c.Topics = append(c.Topics, tp)
	}
	return c
}

func c31Digest(alg string, v []byte) string {
	switch alg {
	case "md5":
		s := md5.Sum(v)
		return hex.EncodeToString(s[:])
	case "crc32":
		var b [4]byte
		binary.BigEndian.PutUint32(b[:], crc32.ChecksumIEEE(v))
		return hex.EncodeToString(b[:])
	default:
		s := sha256.Sum256(v)
		return hex.EncodeToString(s[:])
	}
}

// c31LegacyMessage renders one magic-1 message (offset, size, crc32-IEEE, magic, attributes, timestamp, key, value).
func c31LegacyMessage(offset, ts int64, key, value []byte) []byte {
	body := []byte{1, 0}
	body = binary.BigEndian.AppendUint64(body, uint64(ts))
	body = binary.BigEndian.AppendUint32(body, uint32(len(key)))
	body = append(body, key...)
	body = binary.BigEndian.AppendUint32(body, uint32(len(value)))
	body = append(body, value...)
	out := binary.BigEndian.AppendUint64(nil, uint64(offset))
	out = binary.BigEndian.AppendUint32(out, uint32(4+len(body)))
	out = binary.BigEndian.AppendUint32(out, crc32.ChecksumIEEE(body))
	return append(out, body...)
}

// c31Encode renders every batch with the reference encoder and own compression.
func c31Encode(c *c31Case) error {
	for ti := range c.Topics {
		for pi := range c.Topics[ti].Parts {
			p := &c.Topics[ti].Parts[pi]
			if p.Legacy {
				continue
			}
			var wire []byte
			for bi := range p.Batches {
				b := &p.Batches[bi]
				var plain []byte
				for _, rec := range b.Hdr.Records {
					plain = append(plain, kbatch.EncodeRecord(rec)...)
				}
				comp, err := c31Compress(b.Codec, b.Xerial, plain)
				if err != nil {
					return err
				}
				h := b.Hdr
				h.NumRecords = int32(len(h.Records))
				h.LastOffsetDelta = h.Records[len(h.Records)-1].OffsetDelta
				b.Hdr.NumRecords, b.Hdr.LastOffsetDelta = h.NumRecords, h.LastOffsetDelta
				b.Wire = kbatch.EncodeRaw(h, comp, true)
				wire = append(wire, b.Wire...)
			}
			if wire == nil && !p.NilRecs {
				wire = []byte{}
			}
			p.Wire = wire
		}
	}
	return nil
}

// ---------------------------------------------------------------------------
// comparison helpers
// ---------------------------------------------------------------------------

func c31BytesSame(a, b []byte) bool {
	if (a == nil) != (b == nil) {
		return false
	}
	return bytes.Equal(a, b)
}

func c31HeadersSame(a, b []kbatch.Header) bool {
	if len(a) != len(b) {
		return false
	}
	for i := range a {
		if a[i].Key != b[i].Key || !c31BytesSame(a[i].Value, b[i].Value) {
			return false
		}
	}
	return true
}

// c31RecDiff names the first field in which two records differ ("" = identical).
func c31RecDiff(a, b kbatch.Record, ignoreValueAndHeaders bool) string {
	switch {
	case a.Attributes != b.Attributes:
		return "attributes"
	case a.TimestampDelta != b.TimestampDelta:
		return "timestamp_delta"
	case a.OffsetDelta != b.OffsetDelta:
		return "offset_delta"
	case !c31BytesSame(a.Key, b.Key):
		return "key"
	}
	if ignoreValueAndHeaders {
		return ""
	}
	if !c31BytesSame(a.Value, b.Value) {
		return "value"
	}
	if !c31HeadersSame(a.Headers, b.Headers) {
		return "headers"
	}
	return ""
}

func c31HdrDiff(a, b kbatch.Batch) string {
	switch {
	case a.BaseOffset != b.BaseOffset:
		return "base_offset"
	case a.PartitionLeaderEpoch != b.PartitionLeaderEpoch:
		return "partition_leader_epoch"
	case a.Magic != b.Magic:
		return "magic"
	case a.Attributes&7 != b.Attributes&7:
		return "codec"
	case a.Attributes != b.Attributes:
		return "attributes"
	case a.LastOffsetDelta != b.LastOffsetDelta:
		return "last_offset_delta"
	case a.FirstTimestamp != b.FirstTimestamp:
		return "first_timestamp"
	case a.MaxTimestamp != b.MaxTimestamp:
		return "max_timestamp"
	case a.ProducerID != b.ProducerID:
		return "producer_id"
	case a.ProducerEpoch != b.ProducerEpoch:
		return "producer_epoch"
	case a.BaseSequence != b.BaseSequence:
		return "base_sequence"
	case a.NumRecords != b.NumRecords:
		return "num_records"
	}
	return ""
}

func c31Hex(b []byte) string {
	if len(b) > 2048 {
		return hex.EncodeToString(b[:2048]) + fmt.Sprintf("...(+%d bytes)", len(b)-2048)
	}
	return hex.EncodeToString(b)
}

type c31Envelope struct {
	Version     int    `json:"kfs_lfs"`
	Bucket      string `json:"bucket"`
	Key         string `json:"key"`
	Size        *int64 `json:"size"`
	SHA256      string `json:"sha256"`
	Checksum    string `json:"checksum"`
	ChecksumAlg string `json:"checksum_alg"`
}

// ---------------------------------------------------------------------------
// the check
// ---------------------------------------------------------------------------

// One leg, two modes over the same generator and oracle (one test binary, one link):
// "direct" cases call rewriteProduceRecords; "routed" cases go through the proxy's
// produce path (handleProduceRouting: parse, LFS rewrite, fan-out, re-encode) and
// judge the bytes a TCP backend actually receives.
func TestVerifC31Rewrite(t *testing.T) { c31Run(t, "rewrite") }

const c31Rule = "PRNG produce requests (API v3-9; 1-3 topics (a topic may be listed twice) x 1-3 partitions x 0-3 batches; codecs none/gzip/snappy(raw+xerial)/lz4/zstd; 1-5 records per batch with null/empty keys and values, 1 KiB keys, hostile timestamp deltas, gapped offset deltas, duplicate headers, the flag header at any position / twice / with declared checksums; a few 5 MiB+ values; S3 chunk size lowered in some cases so that Upload takes its multipart branch; a few produce-v2 requests with magic-1 message sets that cannot carry a flag) against an S3 stand-in with real multipart semantics. Reference view (kit kbatch + own decompression) before/after: same topics/partitions/batch count/record count and order; a batch or partition without a flagged record is byte-identical; every batch header field incl. codec bits unchanged, Length frames exactly, CRC32C verifies, NumRecords == records present; unflagged records identical in every field (null vs empty distinguished); flagged records keep attributes/deltas/key, headers == original minus LFS_BLOB entries, value decodes (pkg/lfs and own JSON) to an envelope whose key is new, unique, in the configured bucket, and whose stored object bytes == original value with size, SHA-256 and declared checksum correct. non-trivial = a request that was rewritten and held at least one flagged record. "

func c31Run(t *testing.T, leg string) {
	r := verifkit.Start(t, "C31", leg)
	rule := c31Rule + "Direct cases: requests are parsed with protocol.ParseRequest and handed to the real rewriteProduceRecords; 'after' is the in-place rewritten request, which is additionally passed through the fan-out encoder (encodeProduceRequest) and read back. Routed cases: the wire request goes through the real (*proxy).handleProduceRouting with the LFS module enabled and one TCP backend; 'after' is the produce request that the backend received."
	defer r.Finish(rule,
		"a null flagged value is stored as an empty object (null and empty are both 'exactly the original value' of length 0)",
		"'loses only its flag header' is read as: every header whose key is exactly LFS_BLOB is removed, nothing else (LFS_BLOB_ALG stays)",
		"requests that carry a record the proxy must refuse (wrong declared checksum, unsupported algorithm, checksum with alg none, blob over the size limit) are expected to fail as a whole; nothing is judged on them beyond 'an error was returned'",
		"the harness lowers s3Uploader.chunkSize in-package (64/1000/1 bytes) to reach the multipart branch without 5 MiB records; the stand-in's minimum-part rule is disabled in this check for that reason",
		"race detector off for this check: one goroutine, pure input->output property; under -race the per-batch kgo compressor pools built by the code under test make a case cost seconds")

	logger := slog.New(slog.NewTextHandler(io.Discard, nil))
	s3f := newVfS3(0)
	nDirect, nRouted := r.N(600, 16000), r.N(250, 5000)
	if v, err := strconv.Atoi(os.Getenv("C31_DEV_N")); err == nil && v > 0 {
		nDirect, nRouted = v, v/2 // development knob only; never set by bin/check
	}
	n := nDirect + nRouted
	broker := newVfBroker(t)
	defer broker.Close()
	seenKeys := map[string]bool{}
	for ci := 0; ci < n; ci++ {
		routed := ci >= nDirect
		rng := r.Rand(ci)
		c := c31Gen(rng, ci)
		if err := c31Encode(&c); err != nil {
			t.Fatalf("case %d: harness encode: %v", ci, err)
		}
		s3f.Reset()
		m := &lfsModule{
			logger:      logger,
			s3Uploader:  &s3Uploader{bucket: "vf-bucket", region: "us-east-1", chunkSize: c.ChunkSize, api: s3f},
			s3Bucket:    "vf-bucket",
			s3Namespace: "vf-ns",
			maxBlob:     c.MaxBlob,
			checksumAlg: c.DefaultAlg,
			proxyID:     "vf-proxy",
			metrics:     newLfsMetrics(),
			tracker:     &LfsOpsTracker{config: TrackerConfig{}, logger: logger},
		}
		atomic.StoreUint32(&m.s3Healthy, 1)

		// wire request exactly as a client would send it, parsed exactly as the proxy parses it
		kreq := kmsg.NewPtrProduceRequest()
		kreq.Version = c.Version
		kreq.Acks = int16([]int{1, -1}[rng.Intn(2)])
		kreq.TimeoutMillis = 1000 + int32(rng.Intn(1000))
		for _, tp := range c.Topics {
			kt := kmsg.NewProduceRequestTopic()
			kt.Topic = tp.Name
			for _, p := range tp.Parts {
				kp := kmsg.NewProduceRequestTopicPartition()
				kp.Partition = p.Partition
				kp.Records = p.Wire
				kt.Partitions = append(kt.Partitions, kp)
			}
			kreq.Topics = append(kreq.Topics, kt)
		}
		wire := kmsg.NewRequestFormatter(kmsg.FormatterClientID("c31")).AppendRequest(nil, kreq, int32(ci))[4:]
		header, parsed, err := protocol.ParseRequest(wire)
		if err != nil {
			t.Fatalf("case %d: protocol.ParseRequest of a well-formed produce v%d failed: %v", ci, c.Version, err)
		}
		req := parsed.(*kmsg.ProduceRequest)

		// self-check of the generator: the reference decoder must read back what was specified
		for ti, tp := range c.Topics {
			for pi, p := range tp.Parts {
				if p.Legacy {
					if !bytes.Equal(req.Topics[ti].Partitions[pi].Records, p.Wire) {
						t.Fatalf("case %d: harness self-check: legacy message set not carried by the request", ci)
					}
					continue
				}
				got, _, err := c31DecodeBatches(req.Topics[ti].Partitions[pi].Records)
				if err != nil || len(got) != len(p.Batches) {
					t.Fatalf("case %d: harness self-check: reference decode of generated input: %v (%d batches, want %d)", ci, err, len(got), len(p.Batches))
				}
				for bi := range got {
					if d := c31HdrDiff(p.Batches[bi].Hdr, got[bi]); d != "" {
						t.Fatalf("case %d: harness self-check: header field %s", ci, d)
					}
					for ri := range got[bi].Records {
						if d := c31RecDiff(p.Batches[bi].Hdr.Records[ri], got[bi].Records[ri], false); d != "" {
							t.Fatalf("case %d: harness self-check: record field %s", ci, d)
						}
					}
				}
			}
		}

		before := map[string]bool{}
		for _, k := range s3f.Keys() {
			before[k] = true
		}
		var res lfsRewriteResult
		var rerr error
		var panicked any
		afterTopics := req.Topics
		if !routed {
			func() {
				defer func() { panicked = recover() }()
				res, rerr = m.rewriteProduceRecords(context.Background(), header, req)
			}()
			afterTopics = req.Topics
		} else {
			broker.Set("ok")
			px := &proxy{backends: []string{broker.Addr()}, logger: logger, dialTimeout: 60 * time.Second, backendRetries: 1, backendBackoff: time.Millisecond, lfs: m}
			pool := newConnPool(60 * time.Second)
			var resp []byte
			func() {
				defer func() { panicked = recover() }()
				resp, rerr = px.handleProduceRouting(context.Background(), header, wire, pool)
			}()
			pool.Close()
			if panicked == nil && rerr == nil {
				raws := broker.Raws()
				if len(raws) != 1 {
					r.Inconclusive(fmt.Sprintf("case %d: the backend received %d requests for one produce (response %d bytes)", ci, len(raws), len(resp)))
					r.Case(c31Sig(&c)+"/routed", false)
					continue
				}
				got := kmsg.NewPtrProduceRequest()
				got.Version = c.Version
				body := c31SkipRequestHeader(raws[0], c.Version >= 9)
				if body == nil || got.ReadFrom(body) != nil {
					r.Violation("forwarded_request_unreadable", "the produce request received by the backend cannot be read back with kmsg", map[string]any{"case": ci, "seed": r.Seed, "forwarded_hex": c31Hex(raws[0])})
					r.Case(c31Sig(&c)+"/routed", false)
					continue
				}
				afterTopics = got.Topics
				res.modified = c.NFlagged > 0
				r.Count("requests_received_by_backend", 1)
			}
		}
		replay := func(extra map[string]any) map[string]any {
			out := map[string]any{"case": ci, "seed": r.Seed, "tier": r.Tier, "produce_version": c.Version, "chunk_size": c.ChunkSize, "default_alg": c.DefaultAlg, "request_wire_hex": c31Hex(wire)}
			for k, v := range extra {
				out[k] = v
			}
			return out
		}
		sig := c31Sig(&c) + map[bool]string{true: "/routed", false: "/direct"}[routed]
		want := c.Topics
		if routed && len(afterTopics) != len(c.Topics) {
			// (an untouched request is forwarded verbatim; a rewritten one is re-grouped)
			// the fan-out groups partitions per topic name: a topic listed twice reaches the backend as one
			// entry holding the partitions of both, in order. That is the same request; compare against that form.
			want = nil
			idx := map[string]int{}
			for _, tp := range c.Topics {
				i, ok := idx[tp.Name]
				if !ok {
					idx[tp.Name] = len(want)
					want = append(want, c31Topic{Name: tp.Name})
					i = len(want) - 1
				}
				want[i].Parts = append(want[i].Parts, tp.Parts...)
			}
		}
		if panicked != nil {
			r.Violation("panic_in_rewrite", fmt.Sprintf("rewriteProduceRecords panicked: %v", panicked), replay(nil))
			r.Case(sig, false)
			continue
		}
		if c.ErrTrigger != "" {
			r.Count("cases_with_refusal_trigger", 1)
			r.Seen("refusal_triggers", c.ErrTrigger)
			if rerr != nil {
				r.Count("refusals_observed", 1)
			} else {
				r.Count("refusal_trigger_but_no_error", 1) // not judged: the statement does not speak about refusals
			}
			r.Case(sig, false)
			continue
		}
		if rerr != nil && c.Legacy {
			// not judged: nothing was rewritten or forwarded; the statement is about rewritten requests
			r.Count("legacy_message_set_requests_refused", 1)
			r.Note("last_legacy_error", fmt.Sprintf("case %d: %v", ci, rerr))
			r.Case(sig, false)
			continue
		}
		if c.Legacy {
			r.Count("legacy_message_set_requests_passed", 1)
		}
		if rerr != nil {
			r.Count("unexpected_errors", 1)
			r.Note("last_unexpected_error", fmt.Sprintf("case %d: %v", ci, rerr))
			r.Case(sig, false)
			continue
		}

		ok := true
		viol := func(class, summary string, extra map[string]any) {
			ok = false
			r.Violation(class, summary, replay(extra))
		}
		if res.modified != (c.NFlagged > 0) {
			// informational only: "modified" is internal, the statement is about the bytes
			r.Count("modified_flag_disagrees_with_flag_presence", 1)
		}
		if len(afterTopics) != len(want) {
			viol("topic_count_changed", fmt.Sprintf("%d topics became %d", len(want), len(afterTopics)), nil)
		}
		for ti := 0; ti < len(want) && ti < len(afterTopics) && ok; ti++ {
			tp := want[ti]
			if afterTopics[ti].Topic != tp.Name || len(afterTopics[ti].Partitions) != len(tp.Parts) {
				viol("topic_or_partition_list_changed", fmt.Sprintf("topic %d: %q/%d partitions became %q/%d", ti, tp.Name, len(tp.Parts), afterTopics[ti].Topic, len(afterTopics[ti].Partitions)), nil)
				break
			}
			for pi, p := range tp.Parts {
				after := afterTopics[ti].Partitions[pi]
				loc := map[string]any{"topic": tp.Name, "partition": p.Partition, "before_records_hex": c31Hex(p.Wire), "after_records_hex": c31Hex(after.Records)}
				if after.Partition != p.Partition {
					viol("partition_index_changed", fmt.Sprintf("%s: partition %d became %d", tp.Name, p.Partition, after.Partition), loc)
					continue
				}
				partFlagged := false
				for _, b := range p.Batches {
					for _, f := range b.Flagged {
						partFlagged = partFlagged || f
					}
				}
				if !partFlagged {
					if !bytes.Equal(after.Records, p.Wire) {
						viol("untouched_partition_bytes_changed", fmt.Sprintf("%s/%d has no flagged record but its record bytes changed", tp.Name, p.Partition), loc)
					}
					r.Count("untouched_partitions", 1)
					continue
				}
				// codec bits first: a changed codec would otherwise surface as an unreadable record section
				if codecChanged := c31CodecPrepass(after.Records, p.Batches); codecChanged != "" {
					viol("batch_codec_changed", fmt.Sprintf("%s/%d: %s", tp.Name, p.Partition, codecChanged), loc)
					continue
				}
				got, raws, err := c31DecodeBatches(after.Records)
				if err != nil {
					class := "rewritten_batch_undecodable"
					switch {
					case strings.Contains(err.Error(), "crc mismatch"):
						class = "rewritten_batch_bad_crc"
					case strings.Contains(err.Error(), "batchLength") || strings.Contains(err.Error(), "short batch header"):
						class = "rewritten_batch_bad_length"
					case strings.Contains(err.Error(), "decompress"):
						class = "rewritten_batch_bad_compression"
					case strings.Contains(err.Error(), "trailing bytes") || strings.Contains(err.Error(), "record "):
						class = "rewritten_batch_record_section_disagrees_with_num_records"
					}
					viol(class, fmt.Sprintf("%s/%d: reference decode of the rewritten bytes: %v", tp.Name, p.Partition, err), loc)
					continue
				}
				if len(got) != len(p.Batches) {
					viol("batch_count_changed", fmt.Sprintf("%s/%d: %d batches became %d", tp.Name, p.Partition, len(p.Batches), len(got)), loc)
					continue
				}
				for bi, b := range p.Batches {
					bloc := map[string]any{"topic": tp.Name, "partition": p.Partition, "batch": bi, "codec": c31CodecName(b.Codec), "xerial": b.Xerial, "before_batch_hex": c31Hex(b.Wire), "after_batch_hex": c31Hex(raws[bi])}
					anyFlag := false
					for _, f := range b.Flagged {
						anyFlag = anyFlag || f
					}
					if !anyFlag {
						r.Count("untouched_batches_next_to_rewritten", 1)
						if !bytes.Equal(raws[bi], b.Wire) {
							viol("untouched_batch_bytes_changed", fmt.Sprintf("%s/%d batch %d (%s) has no flagged record but its bytes changed", tp.Name, p.Partition, bi, c31CodecName(b.Codec)), bloc)
						}
						continue
					}
					r.Count("rewritten_batches_"+c31CodecName(b.Codec), 1)
					if b.Xerial {
						r.Count("rewritten_batches_snappy_xerial_input", 1)
					}
					if d := c31HdrDiff(b.Hdr, got[bi]); d != "" {
						class := "batch_header_changed:" + d
						if d == "codec" {
							class = "batch_codec_changed"
						}
						viol(class, fmt.Sprintf("%s/%d batch %d: header field %s changed (codec %s -> %s, attributes %#x -> %#x, numRecords %d -> %d)", tp.Name, p.Partition, bi, d, c31CodecName(b.Codec), c31CodecName(int(got[bi].Attributes&7)), b.Hdr.Attributes, got[bi].Attributes, b.Hdr.NumRecords, got[bi].NumRecords), bloc)
						continue
					}
					if len(got[bi].Records) != len(b.Hdr.Records) {
						viol("record_count_changed", fmt.Sprintf("%s/%d batch %d: %d records became %d", tp.Name, p.Partition, bi, len(b.Hdr.Records), len(got[bi].Records)), bloc)
						continue
					}
					for ri, orig := range b.Hdr.Records {
						now := got[bi].Records[ri]
						rloc := map[string]any{"record": ri}
						for k, v := range bloc {
							rloc[k] = v
						}
						if !b.Flagged[ri] {
							r.Count("unflagged_records_in_rewritten_batches", 1)
							if d := c31RecDiff(orig, now, false); d != "" {
								viol("unflagged_record_changed:"+d, fmt.Sprintf("%s/%d batch %d record %d is not flagged but its %s changed", tp.Name, p.Partition, bi, ri, d), rloc)
							}
							continue
						}
						r.Count("flagged_records", 1)
						if orig.Value == nil {
							r.Count("flagged_null_values", 1)
						} else if len(orig.Value) == 0 {
							r.Count("flagged_empty_values", 1)
						}
						if len(orig.Value) > 5<<20 {
							r.Count("flagged_values_beyond_5MiB", 1)
						}
						if int64(len(orig.Value)) > c.ChunkSize {
							r.Count("flagged_values_uploaded_multipart", 1)
						}
						if d := c31RecDiff(orig, now, true); d != "" {
							viol("flagged_record_changed:"+d, fmt.Sprintf("%s/%d batch %d record %d (flagged): %s changed", tp.Name, p.Partition, bi, ri, d), rloc)
							continue
						}
						var want []kbatch.Header
						nflag := 0
						for _, h := range orig.Headers {
							if h.Key == c31Flag {
								nflag++
								continue
							}
							want = append(want, h)
						}
						if nflag > 1 {
							r.Count("flagged_records_with_duplicate_flag_header", 1)
						}
						if !c31HeadersSame(want, now.Headers) {
							rloc["want_headers"] = fmt.Sprintf("%q", want)
							rloc["got_headers"] = fmt.Sprintf("%q", now.Headers)
							viol("flagged_record_headers_wrong", fmt.Sprintf("%s/%d batch %d record %d: headers are not the original ones minus %s", tp.Name, p.Partition, bi, ri, c31Flag), rloc)
							continue
						}
						// the value must be a valid envelope for a new object holding exactly the original value
						rloc["new_value"] = string(now.Value)
						if _, err := lfs.DecodeEnvelope(now.Value); err != nil {
							viol("flagged_value_not_an_envelope", fmt.Sprintf("%s/%d batch %d record %d: pkg/lfs cannot decode the new value: %v", tp.Name, p.Partition, bi, ri, err), rloc)
							continue
						}
						var env c31Envelope
						if err := json.Unmarshal(now.Value, &env); err != nil || env.Version != 1 || env.Size == nil {
							viol("flagged_value_not_an_envelope", fmt.Sprintf("%s/%d batch %d record %d: envelope JSON incomplete (err=%v version=%d size present=%v)", tp.Name, p.Partition, bi, ri, err, env.Version, env.Size != nil), rloc)
							continue
						}
						if env.Bucket != m.s3Bucket {
							viol("envelope_bucket_wrong", fmt.Sprintf("envelope bucket %q, configured %q", env.Bucket, m.s3Bucket), rloc)
							continue
						}
						if before[env.Key] || seenKeys[env.Key] {
							viol("envelope_object_not_new", fmt.Sprintf("envelope key %q was already used by an earlier object/record", env.Key), rloc)
							continue
						}
						seenKeys[env.Key] = true
						obj, exists := s3f.Object(env.Key)
						if !exists {
							viol("envelope_object_missing", fmt.Sprintf("%s/%d batch %d record %d: no object at envelope key %q", tp.Name, p.Partition, bi, ri, env.Key), rloc)
							continue
						}
						if !bytes.Equal(obj, orig.Value) {
							viol("stored_object_differs_from_original_value", fmt.Sprintf("%s/%d batch %d record %d: object %q holds %d bytes, original value %d bytes, equal=false", tp.Name, p.Partition, bi, ri, env.Key, len(obj), len(orig.Value)), rloc)
							continue
						}
						sum := sha256.Sum256(orig.Value)
						if *env.Size != int64(len(orig.Value)) {
							viol("envelope_size_wrong", fmt.Sprintf("envelope size %d, original value %d bytes", *env.Size, len(orig.Value)), rloc)
							continue
						}
						if !strings.EqualFold(env.SHA256, hex.EncodeToString(sum[:])) {
							viol("envelope_sha256_wrong", fmt.Sprintf("envelope sha256 %s, original value %s", env.SHA256, hex.EncodeToString(sum[:])), rloc)
							continue
						}
						// a declared secondary checksum must be the digest of the value under its algorithm
						if env.Checksum != "" {
							alg := strings.ToLower(strings.TrimSpace(env.ChecksumAlg))
							if alg == "" {
								alg = "sha256"
							}
							r.Seen("envelope_checksum_algs", alg)
							if alg != "sha256" && alg != "md5" && alg != "crc32" {
								viol("envelope_checksum_wrong", fmt.Sprintf("envelope declares checksum %q under algorithm %q", env.Checksum, env.ChecksumAlg), rloc)
								continue
							}
							if !strings.EqualFold(env.Checksum, c31Digest(alg, orig.Value)) {
								viol("envelope_checksum_wrong", fmt.Sprintf("envelope checksum %s (%s) is not the digest of the original value (%s)", env.Checksum, alg, c31Digest(alg, orig.Value)), rloc)
								continue
							}
						}
					}
				}
			}
		}

		// what a broker would parse after the fan-out re-encodes the rewritten request
		if ok && !routed {
			var out []byte
			func() {
				defer func() { panicked = recover() }()
				out = encodeProduceRequest(header, req)
			}()
			if panicked != nil {
				viol("panic_in_reencode", fmt.Sprintf("encodeProduceRequest panicked: %v", panicked), nil)
			} else {
				bk := kmsg.NewPtrProduceRequest()
				bk.Version = c.Version
				body := c31SkipRequestHeader(out, c.Version >= 9)
				if body == nil || bk.ReadFrom(body) != nil || len(bk.Topics) != len(req.Topics) {
					viol("reencoded_request_unreadable", "the re-encoded produce request cannot be read back with kmsg", map[string]any{"reencoded_hex": c31Hex(out)})
				} else {
					for ti := range bk.Topics {
						if bk.Topics[ti].Topic != req.Topics[ti].Topic || len(bk.Topics[ti].Partitions) != len(req.Topics[ti].Partitions) {
							viol("reencoded_request_differs", fmt.Sprintf("topic %d differs after re-encode", ti), nil)
							break
						}
						for pi := range bk.Topics[ti].Partitions {
							a, b := bk.Topics[ti].Partitions[pi], req.Topics[ti].Partitions[pi]
							if a.Partition != b.Partition || !bytes.Equal(a.Records, b.Records) {
								viol("reencoded_request_differs", fmt.Sprintf("%s/%d: record bytes differ after re-encode", bk.Topics[ti].Topic, b.Partition), nil)
							}
						}
					}
					r.Count("wire_roundtrips", 1)
				}
			}
		}

		nontrivial := c.NFlagged > 0
		if nontrivial {
			r.Count("rewritten_requests", 1)
		} else {
			r.Count("passthrough_requests", 1)
		}
		if c.NFlagged > 0 && c.NeighbourUF > 0 {
			r.Count("requests_mixing_flagged_and_unflagged_in_one_batch", 1)
		}
		r.Case(sig, nontrivial)
		if nontrivial && c.NeighbourUF > 0 {
			r.Sample(c31Describe(&c))
		}
	}
	// floors scale with the length of the case list (observed rates are 2-10x higher)
	fl := func(frac float64) int64 { return int64(float64(n) * frac) }
	r.Floor("rewritten_requests", fl(0.4))
	r.Floor("flagged_records", fl(1.0))
	r.Floor("unflagged_records_in_rewritten_batches", fl(0.5))
	r.Floor("untouched_batches_next_to_rewritten", fl(0.1))
	for _, cn := range c31CodecNames {
		r.Floor("rewritten_batches_"+cn, fl(0.1))
	}
	r.Floor("rewritten_batches_snappy_xerial_input", fl(0.02))
	r.Floor("flagged_values_uploaded_multipart", fl(0.1))
	r.Floor("flagged_null_values", fl(0.02))
	r.Floor("requests_received_by_backend", int64(float64(nRouted)*0.4))
	r.Floor("wire_roundtrips", int64(float64(nDirect)*0.4))
}

// c31SkipRequestHeader returns the body after a request header v1 (or v2 when flexible).
func c31SkipRequestHeader(b []byte, flexible bool) []byte {
	if len(b) < 10 {
		return nil
	}
	p := 8
	l := int(int16(binary.BigEndian.Uint16(b[p:])))
	p += 2
	if l > 0 {
		p += l
	}
	if flexible {
		if p >= len(b) || b[p] != 0 {
			return nil
		}
		p++
	}
	if p > len(b) {
		return nil
	}
	return b[p:]
}

func c31Sig(c *c31Case) string {
	var sb strings.Builder
	fmt.Fprintf(&sb, "v%d/c%d/%s|", c.Version, c.ChunkSize, c.DefaultAlg)
	for _, tp := range c.Topics {
		sb.WriteString(tp.Name + "{")
		for _, p := range tp.Parts {
			fmt.Fprintf(&sb, "%d[", p.Partition)
			for _, b := range p.Batches {
				fmt.Fprintf(&sb, "%s%v:", c31CodecName(b.Codec), b.Xerial)
				for i, f := range b.Flagged {
					rec := b.Hdr.Records[i]
					fmt.Fprintf(&sb, "%v/%d/%d/%d,", f, len(rec.Value), len(rec.Headers), len(rec.Key))
				}
				sb.WriteString(";")
			}
			sb.WriteString("]")
		}
		sb.WriteString("}")
	}
	return verifkit.Hash(sb.String())
}

func c31Describe(c *c31Case) map[string]any {
	var topics []string
	for _, tp := range c.Topics {
		for _, p := range tp.Parts {
			var bs []string
			for _, b := range p.Batches {
				var fl []string
				for i, f := range b.Flagged {
					rec := b.Hdr.Records[i]
					var hk []string
					for _, h := range rec.Headers {
						hk = append(hk, h.Key)
					}
					sort.Strings(hk)
					fl = append(fl, fmt.Sprintf("{flagged=%v value=%dB key=%dB headers=%v}", f, len(rec.Value), len(rec.Key), hk))
				}
				bs = append(bs, fmt.Sprintf("%s%s:%s", c31CodecName(b.Codec), map[bool]string{true: "(xerial)", false: ""}[b.Xerial], strings.Join(fl, "")))
			}
			topics = append(topics, fmt.Sprintf("%s/%d: %s", tp.Name, p.Partition, strings.Join(bs, " | ")))
		}
	}
	return map[string]any{"produce_version": c.Version, "chunk_size": c.ChunkSize, "default_alg": c.DefaultAlg, "partitions": topics}
}
