//go:build verif

package operator

import (
	"context"
	"fmt"
	"testing"
	"time"

	metav1 "k8s.io/apimachinery/pkg/apis/meta/v1"
	"k8s.io/apimachinery/pkg/runtime"
	"sigs.k8s.io/controller-runtime/pkg/client"
	"sigs.k8s.io/controller-runtime/pkg/client/fake"

	kafscalev1alpha1 "github.com/KafScale/platform/api/v1alpha1"
	"github.com/KafScale/platform/internal/testutil"
	"github.com/KafScale/platform/internal/verifkit"
	"github.com/KafScale/platform/pkg/metadata"
	clientv3 "go.etcd.io/etcd/client/v3"
)

// Leg operator: the deterministic C21 engine (pkg/metadata, overlaid) with one more step kind: the operator's real
// SnapshotPublisher.Publish (List of KafscaleTopic resources through a controller-runtime fake client ->
// BuildClusterMetadata -> PublishMetadataSnapshot with its read / mergeSnapshots / mod-revision transaction).
func TestVerifC21Operator(t *testing.T) {
	r := verifkit.Start(t, "C21", "operator")
	defer r.Finish("[deterministic histories with operator] as leg det (2-3 real EtcdStore values, watch delivery is a step) plus operator reconciliations: SnapshotPublisher.Publish over a controller-runtime fake client holding KafscaleTopic resources (random subset of the topics, 1-4 partitions, one resource of a foreign cluster) -> BuildClusterMetadata -> PublishMetadataSnapshot (read, mergeSnapshots, transaction on the mod revision) against the same embedded etcd; conservation oracle after quiescence on acknowledged broker admin ops; a loss is attributed to the step after which the etcd snapshot stopped meeting the obligation; non-trivial = history with an obligation and either an admin op on a stale copy or a publish naming an acknowledged topic",
		"topics introduced only by an operator publish carry no obligation (the statement speaks of acknowledged creations); their loss is counted, not judged",
		"embedded single-node etcd, cases sequential on a wiped /kafscale/ keyspace (the operator dials its own client)")
	t.Setenv(operatorEtcdSilenceLogsEnv, "true")
	endpoints := testutil.StartEmbeddedEtcd(t)
	cli, err := clientv3.New(clientv3.Config{Endpoints: endpoints, DialTimeout: 5 * time.Second})
	if err != nil {
		t.Fatalf("etcd client: %v", err)
	}
	defer cli.Close()
	publish := c21Publisher(t, endpoints)
	n := r.N(30, 200)
	for ci := 0; ci < n; ci++ {
		wctx, cancel := context.WithTimeout(context.Background(), 20*time.Second)
		_, err := cli.Delete(wctx, "/kafscale/", clientv3.WithPrefix())
		cancel()
		if err != nil {
			r.Inconclusive(fmt.Sprintf("case %d: wipe: %v", ci, err))
			continue
		}
		env := metadata.VerifC21Env{R: r, KV: cli.KV, Publish: publish, Sync: ci%3 == 2}
		metadata.VerifC21RunCase(env, ci, r.Rand(ci))
	}
	r.Floor("steps_publish", 20)
	r.Floor("cases_with_publish_over_acked_topic", 5)
	r.Floor("cases_with_obligations", 10)
}

func c21Publisher(t *testing.T, endpoints []string) func(ctx context.Context, res []metadata.VerifC21Resource, replicas int32) error {
	scheme := runtime.NewScheme()
	if err := kafscalev1alpha1.AddToScheme(scheme); err != nil {
		t.Fatalf("scheme: %v", err)
	}
	return func(ctx context.Context, res []metadata.VerifC21Resource, replicas int32) error {
		cluster := &kafscalev1alpha1.KafscaleCluster{
			ObjectMeta: metav1.ObjectMeta{Name: "c21", Namespace: "kafscale", UID: "c21-uid"},
			Spec:       kafscalev1alpha1.KafscaleClusterSpec{Brokers: kafscalev1alpha1.BrokerSpec{Replicas: &replicas}},
		}
		objs := []client.Object{&kafscalev1alpha1.KafscaleTopic{
			ObjectMeta: metav1.ObjectMeta{Name: "foreign-topic", Namespace: "kafscale"},
			Spec:       kafscalev1alpha1.KafscaleTopicSpec{ClusterRef: "other", Partitions: 1}}}
		for _, rs := range res {
			objs = append(objs, &kafscalev1alpha1.KafscaleTopic{
				ObjectMeta: metav1.ObjectMeta{Name: rs.Name, Namespace: "kafscale"},
				Spec:       kafscalev1alpha1.KafscaleTopicSpec{ClusterRef: "c21", Partitions: rs.Partitions}})
		}
		c := fake.NewClientBuilder().WithScheme(scheme).WithObjects(objs...).Build()
		return NewSnapshotPublisher(c).Publish(ctx, cluster, endpoints)
	}
}

// Leg opstress: brokers with their real snapshot watchers run admin ops while the operator reconciles concurrently.
func TestVerifC21OpStress(t *testing.T) {
	r := verifkit.Start(t, "C21", "opstress")
	defer r.Finish("[stress with operator] as leg stress (3 EtcdStore values with real watchers, 6-9 concurrent admin ops each) while an operator goroutine runs 3-6 SnapshotPublisher.Publish reconciliations (resources naming broker topics with 1-4 partitions and operator-only topics) against the same etcd; sentinel topic, then conservation oracle on acknowledged broker admin ops; the revision-ordered history of the snapshot key (harness watch) attributes a loss to a tagged broker Put (stale or current copy) or to an untagged write (= operator publish); non-trivial = history with obligations in which broker writes and operator writes interleave",
		"an untagged write to the snapshot key can only be the operator's (the harness sentinel is recognised by its revision)",
		"sentinel not visible within the watchdog => inconclusive")
	t.Setenv(operatorEtcdSilenceLogsEnv, "true")
	endpoints := testutil.StartEmbeddedEtcd(t)
	cli, err := clientv3.New(clientv3.Config{Endpoints: endpoints, DialTimeout: 5 * time.Second})
	if err != nil {
		t.Fatalf("etcd client: %v", err)
	}
	defer cli.Close()
	publish := c21Publisher(t, endpoints)
	n := r.N(6, 30)
	for ci := 0; ci < n; ci++ {
		metadata.VerifC21StressCase(metadata.VerifC21StressEnv{R: r, Cli: cli, Endpoints: endpoints, Publish: publish, Prefix: "opstress"}, ci, r.Rand(ci))
	}
	r.Floor("opstress_cases_judged", 4)
	r.Floor("opstress_operator_publishes_ok", 5)
}
