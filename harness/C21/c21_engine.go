//go:build verif

package metadata

// C21 engine (overlaid into pkg/metadata as a non-test file so that the leg in
// pkg/operator can drive it too). It runs ONE deterministic history:
//
//   - N real EtcdStore values built exactly like NewEtcdStore builds them, except
//     that the snapshot watcher goroutine is not started: the delivery of a
//     pending watch event to broker i is a schedulable step (= the call the
//     watcher makes, refreshSnapshot);
//   - steps: start broker, CreateTopic / CreatePartitions / DeleteTopic on broker
//     i, deliver the pending refresh to broker i, operator publish (callback
//     into pkg/operator's real BuildClusterMetadata + PublishMetadataSnapshot).
//
// Oracle (conservation, from the statement): every acknowledged create / grow
// that is not followed by an acknowledged delete of that topic obliges the
// topic to exist with at least the largest acknowledged partition count, in the
// etcd snapshot and in every broker's Metadata(), once every pending refresh
// has been delivered.

import (
	"context"
	"encoding/json"
	"fmt"
	"math/rand"
	"sort"
	"time"

	"github.com/KafScale/platform/internal/verifkit"
	"github.com/KafScale/platform/pkg/protocol"
	clientv3 "go.etcd.io/etcd/client/v3"
)

type VerifC21Resource struct {
	Name       string `json:"name"`
	Partitions int32  `json:"partitions"`
}

// VerifC21Env is what a leg provides.
type VerifC21Env struct {
	R *verifkit.Run
	// KV is the keyspace of this case (namespaced, or the raw KV of a wiped etcd).
	KV clientv3.KV
	// Publish runs the operator's real publish path for the given topic resources; nil = no operator steps.
	Publish func(ctx context.Context, resources []VerifC21Resource, replicas int32) error
	// Sync: deliver every pending refresh after every step (no broker is ever stale).
	Sync bool
}

type VerifC21Step struct {
	I         int                `json:"i"`
	Op        string             `json:"op"` // start | create | grow | delete | deliver | publish
	Broker    int                `json:"broker"`
	Topic     string             `json:"topic,omitempty"`
	N         int32              `json:"n,omitempty"`
	Resources []VerifC21Resource `json:"resources,omitempty"`
	Replicas  int32              `json:"replicas,omitempty"`
	Acked     bool               `json:"acked"`
	Err       string             `json:"err,omitempty"`
	Stale     bool               `json:"stale_copy,omitempty"` // broker had not yet seen another writer's snapshot when it ran
	Etcd      map[string]int     `json:"etcd_after"`            // topic -> partitions in the etcd snapshot after the step
}

type c21Broker struct {
	store   *EtcdStore
	started bool
	pending bool // a watch event for the snapshot key has not been delivered yet
	stale   bool // ... and it was written by somebody else
}

// verifC21NewStoreNoWatch is NewEtcdStore without startWatchers().
func verifC21NewStoreNoWatch(ctx context.Context, cli *clientv3.Client, initial ClusterMetadata) *EtcdStore {
	store := &EtcdStore{client: cli, metadata: NewInMemoryStore(initial), available: 1}
	_ = store.refreshSnapshot(ctx)
	return store
}

func verifC21Initial(id int32) ClusterMetadata {
	clusterID := "kafscale-cluster"
	return ClusterMetadata{ControllerID: id, ClusterID: &clusterID,
		Brokers: []protocol.MetadataBroker{{NodeID: id, Host: fmt.Sprintf("broker-%d", id), Port: 9092}}}
}

func verifC21Topics(m *ClusterMetadata) map[string]int {
	out := map[string]int{}
	if m == nil {
		return out
	}
	for _, t := range m.Topics {
		if t.Topic == nil || t.ErrorCode != 0 {
			continue
		}
		out[*t.Topic] = len(t.Partitions)
	}
	return out
}

// VerifC21ReadSnapshot reads the etcd snapshot through kv.
func VerifC21ReadSnapshot(ctx context.Context, kv clientv3.KV) (map[string]int, int64, error) {
	gctx, cancel := context.WithTimeout(ctx, 10*time.Second)
	defer cancel()
	resp, err := kv.Get(gctx, snapshotKey())
	if err != nil {
		return nil, 0, err
	}
	if len(resp.Kvs) == 0 {
		return map[string]int{}, 0, nil
	}
	var snap ClusterMetadata
	if err := json.Unmarshal(resp.Kvs[0].Value, &snap); err != nil {
		return nil, 0, fmt.Errorf("snapshot in etcd is not decodable: %w", err)
	}
	return verifC21Topics(&snap), resp.Kvs[0].ModRevision, nil
}

type c21Obligation struct {
	Min     int `json:"min_partitions"`
	ByStep  int `json:"acked_by_step"`
	okAfter []bool
}

// VerifC21RunCase executes one PRNG history and judges it. Returns false when the case decided nothing.
func VerifC21RunCase(env VerifC21Env, ci int, rng *rand.Rand) bool {
	r := env.R
	ctx, cancel := context.WithCancel(context.Background())
	defer cancel()
	cc := clientv3.NewCtxClient(ctx)
	cc.KV = env.KV

	nb := 2 + rng.Intn(2)
	brokers := make([]*c21Broker, nb)
	for i := range brokers {
		brokers[i] = &c21Broker{}
	}
	topics := []string{"alpha", "beta", "gamma", "delta"}[:2+rng.Intn(3)]
	nsteps := 8 + rng.Intn(10)
	var steps []VerifC21Step
	obl := map[string]*c21Obligation{}
	var harnessErr string
	operatorTopics := map[string]bool{} // topics that only an operator publish introduced (no obligation; observed only)

	startBroker := func(i int) {
		b := brokers[i]
		b.store = verifC21NewStoreNoWatch(ctx, cc, verifC21Initial(int32(i)))
		b.started, b.pending, b.stale = true, false, false
	}
	view := func(i int) map[string]int {
		m, err := brokers[i].store.Metadata(ctx, nil)
		if err != nil {
			harnessErr = fmt.Sprintf("Metadata() on broker %d: %v", i, err)
			return map[string]int{}
		}
		return verifC21Topics(m)
	}
	wrote := func(writer int) { // a snapshot put happened: every started broker gets a watch event
		for j, b := range brokers {
			if !b.started {
				continue
			}
			b.pending = true
			if j != writer {
				b.stale = true
			} else {
				b.stale = false // its copy is what etcd holds now
			}
		}
	}
	deliver := func(i int) {
		b := brokers[i]
		if err := b.store.refreshSnapshot(ctx); err != nil {
			harnessErr = fmt.Sprintf("refreshSnapshot on broker %d: %v", i, err)
		}
		b.pending, b.stale = false, false
	}
	record := func(st VerifC21Step) {
		st.I = len(steps)
		snap, _, err := VerifC21ReadSnapshot(ctx, env.KV)
		if err != nil {
			harnessErr = "read snapshot: " + err.Error()
			snap = map[string]int{}
		}
		st.Etcd = snap
		steps = append(steps, st)
		for name, o := range obl {
			o.okAfter = append(o.okAfter, snap[name] >= o.Min)
			_ = name
		}
		r.Count("steps_"+st.Op, 1)
		if st.Acked {
			r.Count("acked_"+st.Op, 1)
		}
		if st.Stale && (st.Op == "create" || st.Op == "grow" || st.Op == "delete") {
			r.Count("admin_ops_on_stale_copy", 1)
		}
	}
	newObl := func(name string, min int) {
		o := obl[name]
		if o == nil {
			o = &c21Obligation{okAfter: make([]bool, len(steps))}
			for i := range o.okAfter {
				o.okAfter[i] = true // no obligation yet
			}
			obl[name] = o
		}
		if min > o.Min {
			o.Min = min
			o.ByStep = len(steps)
		}
	}

	startBroker(0)
	record(VerifC21Step{Op: "start", Broker: 0})
	if rng.Intn(3) > 0 {
		startBroker(1)
		record(VerifC21Step{Op: "start", Broker: 1})
	}
	staleAck, publishOverAcked := false, false

	for len(steps) < nsteps+2 && harnessErr == "" {
		var started, notStarted, pend []int
		for i, b := range brokers {
			if b.started {
				started = append(started, i)
				if b.pending {
					pend = append(pend, i)
				}
			} else {
				notStarted = append(notStarted, i)
			}
		}
		x := rng.Intn(100)
		switch {
		case x < 6 && len(notStarted) > 0:
			i := notStarted[rng.Intn(len(notStarted))]
			startBroker(i)
			record(VerifC21Step{Op: "start", Broker: i})
		case x < 32 && len(pend) > 0:
			i := pend[rng.Intn(len(pend))]
			deliver(i)
			record(VerifC21Step{Op: "deliver", Broker: i})
		case x < 42 && env.Publish != nil:
			var res []VerifC21Resource
			for _, name := range topics {
				if rng.Intn(2) == 0 {
					res = append(res, VerifC21Resource{Name: name, Partitions: int32(1 + rng.Intn(4))})
				}
			}
			replicas := int32(1 + rng.Intn(3))
			before, _, _ := VerifC21ReadSnapshot(ctx, env.KV)
			err := env.Publish(ctx, res, replicas)
			st := VerifC21Step{Op: "publish", Broker: -1, Resources: res, Replicas: replicas, Acked: err == nil}
			if err != nil {
				st.Err = err.Error()
			} else {
				wrote(-1)
				for _, rs := range res {
					if _, had := before[rs.Name]; !had {
						operatorTopics[rs.Name] = true
					}
					if o := obl[rs.Name]; o != nil {
						publishOverAcked = true
					}
				}
			}
			record(st)
		default:
			i := started[rng.Intn(len(started))]
			b := brokers[i]
			name := topics[rng.Intn(len(topics))]
			v := view(i)
			st := VerifC21Step{Broker: i, Topic: name, Stale: b.stale}
			var err error
			y := rng.Intn(100)
			_, has := v[name]
			switch {
			case has && y < 55:
				st.Op, st.N = "grow", int32(v[name]+1+rng.Intn(3))
				err = b.store.CreatePartitions(ctx, name, st.N)
			case has && y < 75:
				st.Op = "delete"
				err = b.store.DeleteTopic(ctx, name)
			default:
				st.Op, st.N = "create", int32(1+rng.Intn(4))
				_, err = b.store.CreateTopic(ctx, TopicSpec{Name: name, NumPartitions: st.N, ReplicationFactor: 1})
			}
			if err != nil {
				st.Err = err.Error()
			} else {
				st.Acked = true
				wrote(i)
				if st.Stale {
					staleAck = true
				}
				switch st.Op {
				case "create", "grow":
					newObl(name, int(st.N))
					delete(operatorTopics, name)
				case "delete":
					delete(obl, name)
					delete(operatorTopics, name)
				}
			}
			record(st)
		}
		if env.Sync {
			for i, b := range brokers {
				if b.started && b.pending {
					deliver(i)
				}
			}
		}
	}
	// quiescence: every pending watch event is delivered
	for i, b := range brokers {
		if b.started && b.pending {
			deliver(i)
			record(VerifC21Step{Op: "deliver", Broker: i})
		}
	}
	if harnessErr != "" {
		r.Inconclusive(fmt.Sprintf("case %d: %s", ci, harnessErr))
		return false
	}
	final, _, err := VerifC21ReadSnapshot(ctx, env.KV)
	if err != nil {
		r.Inconclusive(fmt.Sprintf("case %d: final snapshot read: %v", ci, err))
		return false
	}

	names := make([]string, 0, len(obl))
	for name := range obl {
		names = append(names, name)
	}
	sort.Strings(names)
	replay := map[string]any{"case": ci, "brokers": nb, "sync": env.Sync, "steps": steps, "obligations": obl, "etcd_final": final}
	violated := false
	for _, name := range names {
		o := obl[name]
		got, present := final[name]
		if present && got >= o.Min {
			// etcd is right; every broker's view must be right as well
			for i, b := range brokers {
				if !b.started {
					continue
				}
				v := view(i)
				if g, ok := v[name]; !ok || g < o.Min {
					violated = true
					r.Violation("broker_view_misses_acked_change_after_refresh",
						fmt.Sprintf("topic %q acked with %d partitions (step %d) is in the etcd snapshot (%d) but broker %d's Metadata() shows %d (present=%v) after its refresh was delivered", name, o.Min, o.ByStep, got, i, g, ok), replay)
				}
			}
			continue
		}
		violated = true
		effect := "partitions_shrunk"
		if !present {
			effect = "topic_lost"
		}
		// culprit: the step after which the obligation was (for the last time) no longer met
		culprit := -1
		for k := len(o.okAfter) - 1; k >= 0; k-- {
			if o.okAfter[k] {
				break
			}
			culprit = k
		}
		class := "unattributed:" + effect
		var why string
		if culprit >= 0 && culprit < len(steps) {
			st := steps[culprit]
			switch {
			case st.Op == "publish":
				class = "operator_publish:" + effect
				why = fmt.Sprintf("operator publish of resources %v", st.Resources)
			case (st.Op == "create" || st.Op == "grow") && st.Topic == name && st.Acked && culprit == o.ByStep:
				class = "acked_change_not_in_snapshot:" + effect
				why = fmt.Sprintf("the acknowledged %s itself (broker %d) did not reach the snapshot", st.Op, st.Broker)
			case (st.Op == "create" || st.Op == "grow" || st.Op == "delete") && st.Stale:
				class = "broker_put_from_stale_copy:" + effect
				why = fmt.Sprintf("%s(%s) on broker %d, whose in-memory copy had not yet seen another writer's snapshot, re-wrote the whole snapshot", st.Op, st.Topic, st.Broker)
			case st.Op == "create" || st.Op == "grow" || st.Op == "delete":
				class = "broker_put_from_current_copy:" + effect
				why = fmt.Sprintf("%s(%s) on broker %d with an up-to-date copy", st.Op, st.Topic, st.Broker)
			default:
				class = "lost_at_" + st.Op + ":" + effect
				why = "step " + st.Op
			}
		}
		r.Violation(class, fmt.Sprintf("topic %q was acknowledged with %d partitions at step %d and never deleted; after quiescence the etcd snapshot has %d (present=%v); lost at step %d: %s",
			name, o.Min, o.ByStep, got, present, culprit, why), replay)
	}
	// observation only (no obligation taken from the statement): a topic introduced only by an operator publish that is gone at the end
	for name := range operatorTopics {
		if _, ok := final[name]; !ok {
			r.Count("operator_published_topic_gone_at_end", 1)
		}
	}
	if !violated {
		r.Count("cases_conserved", 1)
	}
	if staleAck {
		r.Count("cases_with_ack_on_stale_copy", 1)
	}
	if publishOverAcked {
		r.Count("cases_with_publish_over_acked_topic", 1)
	}
	if len(obl) > 0 {
		r.Count("cases_with_obligations", 1)
	}
	r.Case(verifkit.Hash(nb, env.Sync, steps), len(obl) > 0 && (staleAck || publishOverAcked))
	r.Seen("histories", verifkit.Hash(steps))
	if ci < 2 {
		r.Sample(map[string]any{"case": ci, "sync": env.Sync, "steps": steps, "obligations": obl, "etcd_final": final})
	}
	return true
}
