//go:build verif

package metadata

// C21 engine (overlaid into pkg/metadata as a non-test file so that the leg in
// pkg/operator can drive it too). It runs ONE deterministic history:
//
//   - N real EtcdStore values built exactly like NewEtcdStore builds them, except
//     that the snapshot watcher goroutine is not started: the delivery of a
//     pending watch event to broker i is a schedulable step (= the call the
//     watcher makes, refreshSnapshot);
//   - steps: start broker, CreateTopic / CreatePartitions / DeleteTopic on broker
//     i, deliver the pending refresh to broker i, operator publish (callback
//     into pkg/operator's real BuildClusterMetadata + PublishMetadataSnapshot).
//
// Oracle (conservation, from the statement): every acknowledged create / grow
// that is not followed by an acknowledged delete of that topic obliges the
// topic to exist with at least the largest acknowledged partition count, in the
// etcd snapshot and in every broker's Metadata(), once every pending refresh
// has been delivered.

import (
	"context"
	"encoding/json"
	"fmt"
	"math/rand"
	"sort"
	"strings"
	"sync"
	"sync/atomic"
	"time"

	"github.com/KafScale/platform/internal/verifkit"
	"github.com/KafScale/platform/pkg/protocol"
	clientv3 "go.etcd.io/etcd/client/v3"
)

type VerifC21Resource struct {
	Name       string `json:"name"`
	Partitions int32  `json:"partitions"`
}

// VerifC21Env is what a leg provides.
type VerifC21Env struct {
	R *verifkit.Run
	// KV is the keyspace of this case (namespaced, or the raw KV of a wiped etcd).
	KV clientv3.KV
	// Publish runs the operator's real publish path for the given topic resources; nil = no operator steps.
	Publish func(ctx context.Context, resources []VerifC21Resource, replicas int32) error
	// Sync: deliver every pending refresh after every step (no broker is ever stale).
	Sync bool
}

type VerifC21Step struct {
	I         int                `json:"i"`
	Op        string             `json:"op"` // start | create | grow | delete | deliver | publish
	Broker    int                `json:"broker"`
	Topic     string             `json:"topic,omitempty"`
	N         int32              `json:"n,omitempty"`
	Resources []VerifC21Resource `json:"resources,omitempty"`
	Replicas  int32              `json:"replicas,omitempty"`
	Acked     bool               `json:"acked"`
	Err       string             `json:"err,omitempty"`
	Stale     bool               `json:"stale_copy,omitempty"` // broker had not yet seen another writer's snapshot when it ran
	Etcd      map[string]int     `json:"etcd_after"`           // topic -> partitions in the etcd snapshot after the step
}

type c21Broker struct {
	store   *EtcdStore
	started bool
	pending bool // a watch event for the snapshot key has not been delivered yet
	stale   bool // ... and it was written by somebody else
}

// verifC21NewStoreNoWatch is NewEtcdStore without startWatchers().
func verifC21NewStoreNoWatch(ctx context.Context, cli *clientv3.Client, initial ClusterMetadata) *EtcdStore {
	store := &EtcdStore{client: cli, metadata: NewInMemoryStore(initial), available: 1}
	_ = store.refreshSnapshot(ctx)
	return store
}

func verifC21Initial(id int32) ClusterMetadata {
	clusterID := "kafscale-cluster"
	return ClusterMetadata{ControllerID: id, ClusterID: &clusterID,
		Brokers: []protocol.MetadataBroker{{NodeID: id, Host: fmt.Sprintf("broker-%d", id), Port: 9092}}}
}

func verifC21Topics(m *ClusterMetadata) map[string]int {
	out := map[string]int{}
	if m == nil {
		return out
	}
	for _, t := range m.Topics {
		if t.Topic == nil || t.ErrorCode != 0 {
			continue
		}
		out[*t.Topic] = len(t.Partitions)
	}
	return out
}

// VerifC21ReadSnapshot reads the etcd snapshot through kv.
func VerifC21ReadSnapshot(ctx context.Context, kv clientv3.KV) (map[string]int, int64, error) {
	gctx, cancel := context.WithTimeout(ctx, 10*time.Second)
	defer cancel()
	resp, err := kv.Get(gctx, snapshotKey())
	if err != nil {
		return nil, 0, err
	}
	if len(resp.Kvs) == 0 {
		return map[string]int{}, 0, nil
	}
	var snap ClusterMetadata
	if err := json.Unmarshal(resp.Kvs[0].Value, &snap); err != nil {
		return nil, 0, fmt.Errorf("snapshot in etcd is not decodable: %w", err)
	}
	return verifC21Topics(&snap), resp.Kvs[0].ModRevision, nil
}

type c21Obligation struct {
	Min     int `json:"min_partitions"`
	ByStep  int `json:"acked_by_step"`
	okAfter []bool
}

// VerifC21RunCase executes one PRNG history and judges it. Returns false when the case decided nothing.
func VerifC21RunCase(env VerifC21Env, ci int, rng *rand.Rand) bool {
	r := env.R
	ctx, cancel := context.WithCancel(context.Background())
	defer cancel()
	cc := clientv3.NewCtxClient(ctx)
	cc.KV = env.KV

	nb := 2 + rng.Intn(2)
	brokers := make([]*c21Broker, nb)
	for i := range brokers {
		brokers[i] = &c21Broker{}
	}
	topics := []string{"alpha", "beta", "gamma", "delta"}[:2+rng.Intn(3)]
	nsteps := 8 + rng.Intn(10)
	var steps []VerifC21Step
	obl := map[string]*c21Obligation{}
	var harnessErr string
	operatorTopics := map[string]bool{} // topics that only an operator publish introduced (no obligation; observed only)

	startBroker := func(i int) {
		b := brokers[i]
		b.store = verifC21NewStoreNoWatch(ctx, cc, verifC21Initial(int32(i)))
		b.started, b.pending, b.stale = true, false, false
	}
	view := func(i int) map[string]int {
		m, err := brokers[i].store.Metadata(ctx, nil)
		if err != nil {
			harnessErr = fmt.Sprintf("Metadata() on broker %d: %v", i, err)
			return map[string]int{}
		}
		return verifC21Topics(m)
	}
	wrote := func(writer int) { // a snapshot put happened: every started broker gets a watch event
		for j, b := range brokers {
			if !b.started {
				continue
			}
			b.pending = true
			if j != writer {
				b.stale = true
			} else {
				b.stale = false // its copy is what etcd holds now
			}
		}
	}
	deliver := func(i int) {
		b := brokers[i]
		if err := b.store.refreshSnapshot(ctx); err != nil {
			harnessErr = fmt.Sprintf("refreshSnapshot on broker %d: %v", i, err)
		}
		b.pending, b.stale = false, false
	}
	record := func(st VerifC21Step) {
		st.I = len(steps)
		snap, _, err := VerifC21ReadSnapshot(ctx, env.KV)
		if err != nil {
			harnessErr = "read snapshot: " + err.Error()
			snap = map[string]int{}
		}
		st.Etcd = snap
		steps = append(steps, st)
		for name, o := range obl {
			o.okAfter = append(o.okAfter, snap[name] >= o.Min)
			_ = name
		}
		r.Count("steps_"+st.Op, 1)
		if st.Acked {
			r.Count("acked_"+st.Op, 1)
		}
		if st.Stale && (st.Op == "create" || st.Op == "grow" || st.Op == "delete") {
			r.Count("admin_ops_on_stale_copy", 1)
		}
	}
	newObl := func(name string, min int) {
		o := obl[name]
		if o == nil {
			o = &c21Obligation{okAfter: make([]bool, len(steps))}
			for i := range o.okAfter {
				o.okAfter[i] = true // no obligation yet
			}
			obl[name] = o
		}
		if min > o.Min {
			o.Min = min
			o.ByStep = len(steps)
		}
	}

	startBroker(0)
	record(VerifC21Step{Op: "start", Broker: 0})
	if rng.Intn(3) > 0 {
		startBroker(1)
		record(VerifC21Step{Op: "start", Broker: 1})
	}
	staleAck, publishOverAcked := false, false

	for len(steps) < nsteps+2 && harnessErr == "" {
		var started, notStarted, pend []int
		for i, b := range brokers {
			if b.started {
				started = append(started, i)
				if b.pending {
					pend = append(pend, i)
				}
			} else {
				notStarted = append(notStarted, i)
			}
		}
		x := rng.Intn(100)
		switch {
		case x < 6 && len(notStarted) > 0:
			i := notStarted[rng.Intn(len(notStarted))]
			startBroker(i)
			record(VerifC21Step{Op: "start", Broker: i})
		case x < 32 && len(pend) > 0:
			i := pend[rng.Intn(len(pend))]
			deliver(i)
			record(VerifC21Step{Op: "deliver", Broker: i})
		case x < 42 && env.Publish != nil:
			var res []VerifC21Resource
			for _, name := range topics {
				if rng.Intn(2) == 0 {
					res = append(res, VerifC21Resource{Name: name, Partitions: int32(1 + rng.Intn(4))})
				}
			}
			replicas := int32(1 + rng.Intn(3))
			before, _, _ := VerifC21ReadSnapshot(ctx, env.KV)
			err := env.Publish(ctx, res, replicas)
			st := VerifC21Step{Op: "publish", Broker: -1, Resources: res, Replicas: replicas, Acked: err == nil}
			if err != nil {
				st.Err = err.Error()
			} else {
				wrote(-1)
				for _, rs := range res {
					if _, had := before[rs.Name]; !had {
						operatorTopics[rs.Name] = true
					}
					if o := obl[rs.Name]; o != nil {
						publishOverAcked = true
					}
				}
			}
			record(st)
		default:
			i := started[rng.Intn(len(started))]
			b := brokers[i]
			name := topics[rng.Intn(len(topics))]
			v := view(i)
			st := VerifC21Step{Broker: i, Topic: name, Stale: b.stale}
			var err error
			y := rng.Intn(100)
			_, has := v[name]
			switch {
			case has && y < 55:
				st.Op, st.N = "grow", int32(v[name]+1+rng.Intn(3))
				err = b.store.CreatePartitions(ctx, name, st.N)
			case has && y < 75:
				st.Op = "delete"
				err = b.store.DeleteTopic(ctx, name)
			default:
				st.Op, st.N = "create", int32(1+rng.Intn(4))
				_, err = b.store.CreateTopic(ctx, TopicSpec{Name: name, NumPartitions: st.N, ReplicationFactor: 1})
			}
			if err != nil {
				st.Err = err.Error()
			} else {
				st.Acked = true
				wrote(i)
				if st.Stale {
					staleAck = true
				}
				switch st.Op {
				case "create", "grow":
					newObl(name, int(st.N))
					delete(operatorTopics, name)
				case "delete":
					delete(obl, name)
					delete(operatorTopics, name)
				}
			}
			record(st)
		}
		if env.Sync {
			for i, b := range brokers {
				if b.started && b.pending {
					deliver(i)
				}
			}
		}
	}
	// quiescence: every pending watch event is delivered
	for i, b := range brokers {
		if b.started && b.pending {
			deliver(i)
			record(VerifC21Step{Op: "deliver", Broker: i})
		}
	}
	if harnessErr != "" {
		r.Inconclusive(fmt.Sprintf("case %d: %s", ci, harnessErr))
		return false
	}
	final, _, err := VerifC21ReadSnapshot(ctx, env.KV)
	if err != nil {
		r.Inconclusive(fmt.Sprintf("case %d: final snapshot read: %v", ci, err))
		return false
	}

	names := make([]string, 0, len(obl))
	for name := range obl {
		names = append(names, name)
	}
	sort.Strings(names)
	replay := map[string]any{"case": ci, "brokers": nb, "sync": env.Sync, "steps": steps, "obligations": obl, "etcd_final": final}
	violated := false
	for _, name := range names {
		o := obl[name]
		got, present := final[name]
		if present && got >= o.Min {
			// etcd is right; every broker's view must be right as well
			for i, b := range brokers {
				if !b.started {
					continue
				}
				v := view(i)
				if g, ok := v[name]; !ok || g < o.Min {
					violated = true
					r.Violation("broker_view_misses_acked_change_after_refresh",
						fmt.Sprintf("topic %q acked with %d partitions (step %d) is in the etcd snapshot (%d) but broker %d's Metadata() shows %d (present=%v) after its refresh was delivered", name, o.Min, o.ByStep, got, i, g, ok), replay)
				}
			}
			continue
		}
		violated = true
		effect := "partitions_shrunk"
		if !present {
			effect = "topic_lost"
		}
		// culprit: the step after which the obligation was (for the last time) no longer met
		culprit := -1
		for k := len(o.okAfter) - 1; k >= 0; k-- {
			if o.okAfter[k] {
				break
			}
			culprit = k
		}
		class := "unattributed:" + effect
		var why string
		if culprit >= 0 && culprit < len(steps) {
			st := steps[culprit]
			switch {
			case st.Op == "publish":
				class = "operator_publish:" + effect
				why = fmt.Sprintf("operator publish of resources %v", st.Resources)
			case (st.Op == "create" || st.Op == "grow") && st.Topic == name && st.Acked && culprit == o.ByStep:
				class = "acked_change_not_in_snapshot:" + effect
				why = fmt.Sprintf("the acknowledged %s itself (broker %d) did not reach the snapshot", st.Op, st.Broker)
			case (st.Op == "create" || st.Op == "grow" || st.Op == "delete") && st.Stale:
				class = "broker_put_from_stale_copy:" + effect
				why = fmt.Sprintf("%s(%s) on broker %d, whose in-memory copy had not yet seen another writer's snapshot, re-wrote the whole snapshot", st.Op, st.Topic, st.Broker)
			case st.Op == "create" || st.Op == "grow" || st.Op == "delete":
				class = "broker_put_from_current_copy:" + effect
				why = fmt.Sprintf("%s(%s) on broker %d with an up-to-date copy", st.Op, st.Topic, st.Broker)
			default:
				class = "lost_at_" + st.Op + ":" + effect
				why = "step " + st.Op
			}
		}
		r.Violation(class, fmt.Sprintf("topic %q was acknowledged with %d partitions at step %d and never deleted; after quiescence the etcd snapshot has %d (present=%v); lost at step %d: %s",
			name, o.Min, o.ByStep, got, present, culprit, why), replay)
	}
	// observation only (no obligation taken from the statement): a topic introduced only by an operator publish that is gone at the end
	for name := range operatorTopics {
		if _, ok := final[name]; !ok {
			r.Count("operator_published_topic_gone_at_end", 1)
		}
	}
	if !violated {
		r.Count("cases_conserved", 1)
	}
	if staleAck {
		r.Count("cases_with_ack_on_stale_copy", 1)
	}
	if publishOverAcked {
		r.Count("cases_with_publish_over_acked_topic", 1)
	}
	if len(obl) > 0 {
		r.Count("cases_with_obligations", 1)
	}
	r.Case(verifkit.Hash(nb, env.Sync, steps), len(obl) > 0 && (staleAck || publishOverAcked))
	r.Seen("histories", verifkit.Hash(steps))
	if ci < 2 {
		r.Sample(map[string]any{"case": ci, "sync": env.Sync, "steps": steps, "obligations": obl, "etcd_final": final})
	}
	return true
}

// ---------------------------------------------------------------------------
// stress engine: real watchers, concurrent brokers, optionally a concurrent operator
// ---------------------------------------------------------------------------

// VerifC21StressEnv is what a stress leg provides.
type VerifC21StressEnv struct {
	R         *verifkit.Run
	Cli       *clientv3.Client
	Endpoints []string
	// Publish: the operator's real publish path; when set, an operator goroutine reconciles concurrently with the brokers.
	Publish func(ctx context.Context, resources []VerifC21Resource, replicas int32) error
	Prefix  string // counter prefix
}

type c21Put struct {
	Writer string         `json:"writer"` // broker-<i> | untagged (operator) | harness-sentinel
	Broker int            `json:"-"`      // >=0 broker, -1 sentinel, -2 untagged
	Rev    int64          `json:"rev"`
	Prev   int64          `json:"overwrote_rev"`
	Base   int64          `json:"copy_based_on_rev,omitempty"` // brokers only
	Tick   int64          `json:"tick,omitempty"`              // brokers only: logical time at which the Put was answered
	Topics map[string]int `json:"topics"`
}

type c21Tag struct {
	broker int
	base   int64
	tick   int64
}

type c21Recorder struct {
	mu    sync.Mutex
	tags  map[int64]c21Tag // revision of a broker's snapshot Put -> who and from which copy
	clock atomic.Int64
	gets  map[int][]int64 // broker -> logical times at which a snapshot Get was answered
}

// c21TagKV observes one broker's KV traffic on the snapshot key.
type c21TagKV struct {
	clientv3.KV
	broker int
	rec    *c21Recorder
	base   atomic.Int64
}

func (k *c21TagKV) Get(ctx context.Context, key string, opts ...clientv3.OpOption) (*clientv3.GetResponse, error) {
	resp, err := k.KV.Get(ctx, key, opts...)
	if err == nil && key == snapshotKey() {
		if len(resp.Kvs) > 0 {
			k.base.Store(resp.Kvs[0].ModRevision)
		}
		k.rec.mu.Lock()
		k.rec.gets[k.broker] = append(k.rec.gets[k.broker], k.rec.clock.Add(1))
		k.rec.mu.Unlock()
	}
	return resp, err
}

func (k *c21TagKV) Put(ctx context.Context, key, val string, opts ...clientv3.OpOption) (*clientv3.PutResponse, error) {
	if key != snapshotKey() {
		return k.KV.Put(ctx, key, val, opts...)
	}
	base := k.base.Load()
	resp, err := k.KV.Put(ctx, key, val, opts...)
	if err == nil {
		k.base.Store(resp.Header.Revision)
		k.rec.mu.Lock()
		k.rec.tags[resp.Header.Revision] = c21Tag{broker: k.broker, base: base, tick: k.rec.clock.Add(1)}
		k.rec.mu.Unlock()
	}
	return resp, err
}

type c21Ack struct {
	Broker int    `json:"broker"`
	Op     string `json:"op"`
	Topic  string `json:"topic"`
	N      int32  `json:"n,omitempty"`
	Err    string `json:"err,omitempty"`
	Call   int64  `json:"call"`
	Ret    int64  `json:"ret"`
}

type c21Publish struct {
	Resources []VerifC21Resource `json:"resources"`
	Replicas  int32              `json:"replicas"`
	Err       string             `json:"err,omitempty"`
}

// VerifC21StressCase runs one concurrent history and judges it after a sentinel.
func VerifC21StressCase(env VerifC21StressEnv, ci int, rng *rand.Rand) {
	r, cli, pre := env.R, env.Cli, env.Prefix
	ctx, cancel := context.WithCancel(context.Background())
	defer cancel()
	wctx, wcancel := context.WithTimeout(ctx, 20*time.Second)
	wipe, err := cli.Delete(wctx, "/kafscale/", clientv3.WithPrefix())
	wcancel()
	if err != nil {
		r.Inconclusive(fmt.Sprintf("%s case %d: wipe: %v", pre, ci, err))
		return
	}
	// the harness's own view of the snapshot key: every write, in revision order
	hist := cli.Watch(ctx, snapshotKey(), clientv3.WithRev(wipe.Header.Revision+1), clientv3.WithPrevKV())

	rec := &c21Recorder{gets: map[int][]int64{}, tags: map[int64]c21Tag{}}
	const nb = 3
	stores := make([]*EtcdStore, nb)
	for i := 0; i < nb; i++ {
		bcli, err := clientv3.New(clientv3.Config{Endpoints: env.Endpoints, DialTimeout: 5 * time.Second})
		if err != nil {
			r.Inconclusive(fmt.Sprintf("%s case %d: broker client: %v", pre, ci, err))
			return
		}
		bcli.KV = &c21TagKV{KV: bcli.KV, broker: i, rec: rec}
		// the body of NewEtcdStore, with the observed client
		store := &EtcdStore{client: bcli, metadata: NewInMemoryStore(verifC21Initial(int32(i))), available: 1}
		_ = store.refreshSnapshot(ctx)
		store.startWatchers()
		stores[i] = store
		defer store.Close()
	}
	// op lists are fixed by the PRNG before anything runs
	type planned struct {
		op    string
		topic string
		n     int32
	}
	plans := make([][]planned, nb)
	for i := 0; i < nb; i++ {
		k := 6 + rng.Intn(4)
		own := 0
		for j := 0; j < k; j++ {
			switch x := rng.Intn(10); {
			case x < 4 || own == 0:
				plans[i] = append(plans[i], planned{"create", fmt.Sprintf("b%d-t%d", i, own), int32(1 + rng.Intn(3))})
				own++
			case x < 6:
				plans[i] = append(plans[i], planned{"grow", fmt.Sprintf("b%d-t%d", i, rng.Intn(own)), int32(2 + rng.Intn(6))})
			case x < 8:
				o := rng.Intn(nb)
				plans[i] = append(plans[i], planned{"grow", fmt.Sprintf("b%d-t%d", o, rng.Intn(2)), int32(2 + rng.Intn(6))})
			case x < 9:
				plans[i] = append(plans[i], planned{"create", fmt.Sprintf("tmp-%d-%d", i, j), 1})
				plans[i] = append(plans[i], planned{"delete", fmt.Sprintf("tmp-%d-%d", i, j), 0})
			default:
				plans[i] = append(plans[i], planned{"delete", fmt.Sprintf("tmp-%d-%d", rng.Intn(nb), rng.Intn(k)), 0})
			}
		}
	}
	var publishes []c21Publish
	if env.Publish != nil {
		for j, k := 0, 3+rng.Intn(4); j < k; j++ {
			p := c21Publish{Replicas: int32(1 + rng.Intn(3))}
			for i := 0; i < nb; i++ {
				if rng.Intn(3) == 0 {
					p.Resources = append(p.Resources, VerifC21Resource{Name: fmt.Sprintf("b%d-t%d", i, rng.Intn(2)), Partitions: int32(1 + rng.Intn(4))})
				}
			}
			if rng.Intn(2) == 0 {
				p.Resources = append(p.Resources, VerifC21Resource{Name: fmt.Sprintf("op-t%d", rng.Intn(2)), Partitions: int32(1 + rng.Intn(3))})
			}
			publishes = append(publishes, p)
		}
	}
	var mu sync.Mutex
	var acks []c21Ack
	var wg sync.WaitGroup
	panics := atomic.Int64{}
	for i := 0; i < nb; i++ {
		wg.Add(1)
		go func(i int) {
			defer wg.Done()
			for _, p := range plans[i] {
				a := c21Ack{Broker: i, Op: p.op, Topic: p.topic, N: p.n, Call: rec.clock.Add(1)}
				func() {
					defer func() {
						if pv := recover(); pv != nil {
							a.Err = fmt.Sprintf("panic: %v", pv)
							panics.Add(1)
						}
					}()
					var err error
					switch p.op {
					case "create":
						_, err = stores[i].CreateTopic(ctx, TopicSpec{Name: p.topic, NumPartitions: p.n, ReplicationFactor: 1})
					case "grow":
						err = stores[i].CreatePartitions(ctx, p.topic, p.n)
					case "delete":
						err = stores[i].DeleteTopic(ctx, p.topic)
					}
					if err != nil {
						a.Err = err.Error()
					}
				}()
				a.Ret = rec.clock.Add(1)
				mu.Lock()
				acks = append(acks, a)
				mu.Unlock()
			}
		}(i)
	}
	if env.Publish != nil {
		wg.Add(1)
		go func() {
			defer wg.Done()
			for j := range publishes {
				if err := env.Publish(ctx, publishes[j].Resources, publishes[j].Replicas); err != nil {
					publishes[j].Err = err.Error()
				}
			}
		}()
	}
	wg.Wait()
	r.Count(pre+"_panics_in_admin_ops", panics.Load())

	// sentinel: changes have stopped; add a marker topic to whatever the snapshot holds now
	sentinel := fmt.Sprintf("zz-sentinel-%d", ci)
	sctx, scancel := context.WithTimeout(ctx, 20*time.Second)
	resp, err := cli.Get(sctx, snapshotKey())
	if err != nil {
		scancel()
		r.Inconclusive(fmt.Sprintf("%s case %d: read before sentinel: %v", pre, ci, err))
		return
	}
	var snap ClusterMetadata
	if len(resp.Kvs) > 0 {
		if err := json.Unmarshal(resp.Kvs[0].Value, &snap); err != nil {
			scancel()
			r.Violation("snapshot_undecodable", "etcd snapshot is not decodable after the workload: "+err.Error(), map[string]any{"case": ci})
			return
		}
	} else {
		snap = verifC21Initial(0)
	}
	name := sentinel
	snap.Topics = append(snap.Topics, protocol.MetadataTopic{Topic: &name, TopicID: TopicIDForName(sentinel),
		Partitions: []protocol.MetadataPartition{{Partition: 0, Leader: 0, Replicas: []int32{0}, ISR: []int32{0}}}})
	payload, _ := json.Marshal(snap)
	sput, err := cli.Put(sctx, snapshotKey(), string(payload))
	scancel()
	if err != nil {
		r.Inconclusive(fmt.Sprintf("%s case %d: sentinel put: %v", pre, ci, err))
		return
	}
	shown := false
	for dl := time.Now().Add(30 * time.Second); time.Now().Before(dl); time.Sleep(2 * time.Millisecond) {
		all := true
		for _, s := range stores {
			m, err := s.Metadata(ctx, nil)
			if err != nil {
				all = false
				break
			}
			if _, ok := verifC21Topics(m)[sentinel]; !ok {
				all = false
				break
			}
		}
		if all {
			shown = true
			break
		}
	}
	if !shown {
		r.Inconclusive(fmt.Sprintf("%s case %d: sentinel topic not shown by every broker within the watchdog", pre, ci))
		return
	}
	final, _, err := VerifC21ReadSnapshot(ctx, cli.KV)
	if err != nil {
		r.Inconclusive(fmt.Sprintf("%s case %d: final read: %v", pre, ci, err))
		return
	}
	// drain the history up to the sentinel write
	rec.mu.Lock()
	tags := map[int64]c21Tag{}
	for k, v := range rec.tags {
		tags[k] = v
	}
	gets := map[int][]int64{}
	for k, v := range rec.gets {
		gets[k] = append([]int64(nil), v...)
	}
	rec.mu.Unlock()
	var puts []c21Put
	histDone := false
	histDL := time.After(30 * time.Second)
	for !histDone {
		select {
		case wr, ok := <-hist:
			if !ok || wr.Err() != nil {
				r.Inconclusive(fmt.Sprintf("%s case %d: history watch ended early", pre, ci))
				return
			}
			for _, ev := range wr.Events {
				if ev.Type != clientv3.EventTypePut {
					continue
				}
				var s ClusterMetadata
				_ = json.Unmarshal(ev.Kv.Value, &s)
				p := c21Put{Rev: ev.Kv.ModRevision, Topics: verifC21Topics(&s), Broker: -2, Writer: "untagged"}
				if ev.PrevKv != nil {
					p.Prev = ev.PrevKv.ModRevision
				}
				if tg, ok := tags[p.Rev]; ok {
					p.Broker, p.Base, p.Tick, p.Writer = tg.broker, tg.base, tg.tick, fmt.Sprintf("broker-%d", tg.broker)
				} else if p.Rev == sput.Header.Revision {
					p.Broker, p.Writer = -1, "harness-sentinel"
				}
				puts = append(puts, p)
				if p.Rev >= sput.Header.Revision {
					histDone = true
				}
			}
		case <-histDL:
			r.Inconclusive(fmt.Sprintf("%s case %d: history watch did not reach the sentinel revision", pre, ci))
			return
		}
	}
	r.Count(pre+"_cases_judged", 1)

	// obligations
	deleteTried := map[string]bool{}
	min := map[string]int{}
	by := map[string]c21Ack{}
	for _, a := range acks {
		if a.Op == "delete" {
			deleteTried[a.Topic] = true
		}
	}
	nacked := 0
	for _, a := range acks {
		r.Count(pre+"_ops_"+a.Op, 1)
		if a.Err != "" {
			continue
		}
		nacked++
		r.Count(pre+"_acked_"+a.Op, 1)
		if a.Op == "delete" || deleteTried[a.Topic] {
			continue
		}
		if int(a.N) > min[a.Topic] {
			min[a.Topic] = int(a.N)
			by[a.Topic] = a
		}
	}
	stalePuts, untagged := 0, 0
	for _, p := range puts {
		if p.Broker >= 0 && p.Prev != 0 && p.Base < p.Prev {
			stalePuts++
		}
		if p.Broker == -2 {
			untagged++
		}
	}
	r.Count(pre+"_snapshot_writes", int64(len(puts)))
	r.Count(pre+"_puts_from_stale_copy", int64(stalePuts))
	r.Count(pre+"_untagged_writes", int64(untagged))
	okPub := 0
	for _, p := range publishes {
		if p.Err == "" {
			okPub++
		}
	}
	r.Count(pre+"_operator_publishes_ok", int64(okPub))
	r.Count(pre+"_operator_publishes_failed", int64(len(publishes)-okPub))

	names := make([]string, 0, len(min))
	for name := range min {
		names = append(names, name)
	}
	sort.Strings(names)
	sort.Slice(acks, func(a, b int) bool { return acks[a].Call < acks[b].Call })
	replay := map[string]any{"case": ci, "ops": acks, "operator_publishes": publishes, "snapshot_writes": puts, "snapshot_get_ticks_by_broker": gets, "etcd_final": final}
	conserved := true
	for _, name := range names {
		need := min[name]
		got, present := final[name]
		if present && got >= need {
			for i, s := range stores {
				m, err := s.Metadata(ctx, nil)
				if err != nil {
					continue
				}
				if g, ok := verifC21Topics(m)[name]; !ok || g < need {
					conserved = false
					r.Violation("broker_view_misses_acked_change_after_refresh",
						fmt.Sprintf("topic %q acked with %d partitions is in etcd (%d) but broker %d shows %d after the sentinel", name, need, got, i, g), replay)
				}
			}
			continue
		}
		conserved = false
		effect := "partitions_shrunk"
		if !present {
			effect = "topic_lost"
		}
		// the write after which the obligation was, for the last time, no longer met
		culprit := -1
		everOK := false
		for k := len(puts) - 1; k >= 0; k-- {
			if puts[k].Topics[name] >= need {
				everOK = true
				break
			}
			culprit = k
		}
		a := by[name]
		class := "unattributed:" + effect
		why := ""
		switch {
		case !everOK:
			// the acknowledged change never reached etcd. Look at the Put the call itself made (single caller per
			// broker: the only snapshot Put of that broker answered inside the call) and at refreshes of the same
			// broker answered between the start of the call and that Put.
			ownPut, prevOwn := int64(-1), int64(0)
			for _, p := range puts {
				if p.Broker == a.Broker && p.Tick > a.Call && p.Tick < a.Ret {
					ownPut = p.Tick
				}
				if p.Broker == a.Broker && p.Tick < a.Call && p.Tick > prevOwn {
					prevOwn = p.Tick
				}
			}
			// The refresh's Update() is not visible at the KV interface, only the answer to its Get: a refresh
			// answered just before the call starts can still replace the copy after the call grew it. So any
			// watcher refresh of this broker since its previous own write counts.
			inside := false
			for _, g := range gets[a.Broker] {
				if g > prevOwn && g < ownPut {
					inside = true
				}
			}
			switch {
			case ownPut < 0:
				class = "acked_change_never_persisted:" + effect
				why = fmt.Sprintf("no tagged snapshot Put was made inside the acknowledged %s by broker %d", a.Op, a.Broker)
			case a.Op == "grow" && inside:
				class = "grow_ack_lost_to_concurrent_refresh"
				why = fmt.Sprintf("a watcher refresh of broker %d was answered between the broker's previous snapshot write and the Put its CreatePartitions made; that Put does not hold the growth", a.Broker)
			default:
				class = "acked_change_not_in_snapshot:" + effect
				why = fmt.Sprintf("the snapshot Put made by the acknowledged %s on broker %d does not hold the change, and no refresh of that broker was answered since its previous write", a.Op, a.Broker)
			}
		case culprit >= 0 && puts[culprit].Broker == -2 && env.Publish == nil:
			class = "untagged_writer:" + effect
			why = fmt.Sprintf("the write at rev %d (over rev %d) did not go through a broker's KV.Put", puts[culprit].Rev, puts[culprit].Prev)
		case culprit >= 0 && puts[culprit].Broker == -2:
			class = "operator_publish:" + effect
			why = fmt.Sprintf("the write at rev %d (over rev %d) was not made by a broker: operator publish", puts[culprit].Rev, puts[culprit].Prev)
		case culprit >= 0 && puts[culprit].Broker >= 0 && puts[culprit].Prev != 0 && puts[culprit].Base < puts[culprit].Prev:
			class = "broker_put_from_stale_copy:" + effect
			why = fmt.Sprintf("broker %d wrote the whole snapshot at rev %d from a copy based on rev %d, overwriting rev %d", puts[culprit].Broker, puts[culprit].Rev, puts[culprit].Base, puts[culprit].Prev)
		case culprit >= 0 && puts[culprit].Broker >= 0:
			class = "broker_put_from_current_copy:" + effect
			why = fmt.Sprintf("broker %d wrote the snapshot at rev %d from a copy based on the revision it overwrote (%d)", puts[culprit].Broker, puts[culprit].Rev, puts[culprit].Prev)
		}
		r.Violation(class, fmt.Sprintf("topic %q acked with %d partitions (%s by broker %d), no delete attempted; after the sentinel etcd has %d (present=%v): %s", name, need, a.Op, a.Broker, got, present, why), replay)
	}
	if conserved {
		r.Count(pre+"_cases_conserved", 1)
	}
	var sig []string
	for _, p := range puts {
		sig = append(sig, fmt.Sprintf("%d:%v", p.Broker, p.Broker >= 0 && p.Base < p.Prev))
	}
	nontrivial := nacked > 0 && len(min) > 0 && (stalePuts > 0 || (env.Publish != nil && untagged > 0 && len(tags) > 0))
	r.Case(verifkit.Hash(pre, ci, strings.Join(sig, ",")), nontrivial)
	if ci == 0 {
		r.Sample(map[string]any{"case": ci, "ops": acks, "operator_publishes": publishes, "snapshot_writes": len(puts), "stale_puts": stalePuts, "conserved": conserved})
	}
}
