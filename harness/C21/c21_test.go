//go:build verif

package metadata

import (
	"context"
	"encoding/json"
	"fmt"
	"sort"
	"strings"
	"sync"
	"sync/atomic"
	"testing"
	"time"

	"github.com/KafScale/platform/internal/testutil"
	"github.com/KafScale/platform/internal/verifkit"
	"github.com/KafScale/platform/pkg/protocol"
	"github.com/twmb/franz-go/pkg/kmsg"
	clientv3 "go.etcd.io/etcd/client/v3"
	"go.etcd.io/etcd/client/v3/namespace"
)

const c21Rule = "conservation after quiescence: every acknowledged CreateTopic/CreatePartitions not followed by an acknowledged DeleteTopic of that topic obliges the topic to be present with >= the largest acknowledged partition count in the etcd snapshot and in every broker's Metadata(), once all pending snapshot refreshes are delivered"

func c21Etcd(t *testing.T) (*clientv3.Client, []string) {
	endpoints := testutil.StartEmbeddedEtcd(t)
	cli, err := clientv3.New(clientv3.Config{Endpoints: endpoints, DialTimeout: 5 * time.Second})
	if err != nil {
		t.Fatalf("etcd client: %v", err)
	}
	t.Cleanup(func() { _ = cli.Close() })
	return cli, endpoints
}

// ---------------------------------------------------------------------------
// leg det: brokers only, watch delivery is a step
// ---------------------------------------------------------------------------

func TestVerifC21Det(t *testing.T) {
	r := verifkit.Start(t, "C21", "det")
	defer r.Finish("[deterministic histories] 2-3 real EtcdStore values on embedded etcd (built like NewEtcdStore, watcher goroutine not started; delivering a pending snapshot watch event = calling refreshSnapshot, a schedulable step); PRNG histories of start / CreateTopic / CreatePartitions / DeleteTopic on broker i / deliver to broker i; every third case delivers all refreshes after every step (no stale broker); the etcd snapshot is read after every step so that a loss is attributed to the step that caused it; "+c21Rule+"; non-trivial = history with an obligation and an acknowledged admin op executed on a copy that had not seen another writer's snapshot",
		"embedded single-node etcd; one etcd key namespace per case",
		"a watch event is modelled as a boolean 'refresh pending' per broker: the watcher re-reads the current snapshot, not the event's value")
	cli, _ := c21Etcd(t)
	c21ForcedOwnRefresh(t, r, cli)
	n := r.N(100, 2500)
	sem := make(chan struct{}, 8)
	var wg sync.WaitGroup
	for ci := 0; ci < n; ci++ {
		wg.Add(1)
		sem <- struct{}{}
		go func(ci int) {
			defer wg.Done()
			defer func() { <-sem }()
			env := VerifC21Env{R: r, KV: namespace.NewKV(cli.KV, fmt.Sprintf("c21/det/%d/%d/", r.Seed, ci)), Sync: ci%3 == 2}
			VerifC21RunCase(env, ci, r.Rand(ci))
		}(ci)
	}
	wg.Wait()
	r.Floor("cases_with_obligations", 20)
	r.Floor("cases_with_ack_on_stale_copy", 10)
	r.Floor("cases_conserved", 10)
}

// c21GateKV blocks the next Get of the snapshot key after the server... before it is sent, until released.
type c21GateKV struct {
	clientv3.KV
	mu      sync.Mutex
	armed   bool
	arrived chan struct{}
	release chan struct{}
}

func (g *c21GateKV) Get(ctx context.Context, key string, opts ...clientv3.OpOption) (*clientv3.GetResponse, error) {
	g.mu.Lock()
	hold := g.armed && key == snapshotKey()
	if hold {
		g.armed = false
	}
	g.mu.Unlock()
	if hold {
		close(g.arrived)
		select {
		case <-g.release:
		case <-ctx.Done():
			return nil, ctx.Err()
		}
	}
	return g.KV.Get(ctx, key, opts...)
}

// c21ForcedOwnRefresh: single broker. The watcher's refresh (for an earlier put) holds persistMu and is waiting
// for etcd's answer while CreatePartitions runs: CreatePartitions mutates the in-memory copy outside persistMu,
// the refresh then replaces the copy with the older snapshot, and the persist that follows writes the old state.
func c21ForcedOwnRefresh(t *testing.T, r *verifkit.Run, cli *clientv3.Client) {
	n := r.N(6, 40)
	for ci := 0; ci < n; ci++ {
		rng := r.Rand(1_000_000 + ci)
		ctx, cancel := context.WithCancel(context.Background())
		kv := namespace.NewKV(cli.KV, fmt.Sprintf("c21/own/%d/%d/", r.Seed, ci))
		gate := &c21GateKV{KV: kv, arrived: make(chan struct{}), release: make(chan struct{})}
		cc := clientv3.NewCtxClient(ctx)
		cc.KV = gate
		store := verifC21NewStoreNoWatch(ctx, cc, verifC21Initial(0))
		n0 := int32(1 + rng.Intn(3))
		n1 := n0 + int32(1+rng.Intn(3))
		name := fmt.Sprintf("own-%d", ci)
		if _, err := store.CreateTopic(ctx, TopicSpec{Name: name, NumPartitions: n0, ReplicationFactor: 1}); err != nil {
			cancel()
			t.Fatalf("forced case %d: CreateTopic: %v", ci, err)
		}
		// the watch event for that put is delivered now: refreshSnapshot takes persistMu and asks etcd
		gate.mu.Lock()
		gate.armed = true
		gate.mu.Unlock()
		refDone := make(chan error, 1)
		go func() { refDone <- store.refreshSnapshot(ctx) }()
		select {
		case <-gate.arrived:
		case <-time.After(20 * time.Second):
			cancel()
			r.Inconclusive(fmt.Sprintf("forced case %d: refresh never reached etcd", ci))
			continue
		}
		type res struct {
			err error
			pan any
		}
		growDone := make(chan res, 1)
		go func() {
			var out res
			defer func() {
				if p := recover(); p != nil {
					out.pan = p
				}
				growDone <- out
			}()
			out.err = store.CreatePartitions(ctx, name, n1)
		}()
		// wait until the in-memory copy shows the growth (CreatePartitions is then at, or just before, persistMu)
		seen := false
		for dl := time.Now().Add(1500 * time.Millisecond); time.Now().Before(dl); time.Sleep(200 * time.Microsecond) {
			if m, err := store.metadata.Metadata(ctx, []string{name}); err == nil && len(m.Topics) == 1 && int32(len(m.Topics[0].Partitions)) == n1 {
				seen = true
				break
			}
		}
		time.Sleep(20 * time.Millisecond) // pacing only: lets CreatePartitions finish its second Metadata read
		close(gate.release)
		var g res
		select {
		case g = <-growDone:
		case <-time.After(30 * time.Second):
			cancel()
			r.Inconclusive(fmt.Sprintf("forced case %d: CreatePartitions did not return", ci))
			continue
		}
		<-refDone
		_ = store.refreshSnapshot(ctx) // quiescence
		final, _, err := VerifC21ReadSnapshot(ctx, kv)
		view, verr := store.Metadata(ctx, nil)
		cancel()
		if err != nil || verr != nil {
			r.Inconclusive(fmt.Sprintf("forced case %d: final read: %v %v", ci, err, verr))
			continue
		}
		sched := []string{
			fmt.Sprintf("broker 0: CreateTopic(%s,%d) acked", name, n0),
			"broker 0 watcher: refreshSnapshot holds persistMu, Get(snapshot) in flight",
			fmt.Sprintf("broker 0: CreatePartitions(%s,%d) grows the in-memory copy, waits for persistMu", name, n1),
			"etcd answers the Get with the old snapshot; Update() replaces the in-memory copy",
			"CreatePartitions persists the (old) copy, writes partition state keys, returns",
		}
		replay := map[string]any{"case": ci, "topic": name, "created_with": n0, "grown_to": n1, "schedule": sched,
			"grow_error": fmt.Sprint(g.err), "grow_panic": fmt.Sprint(g.pan), "etcd_final": final, "broker_view": verifC21Topics(view), "growth_seen_in_memory": seen}
		r.Count("forced_own_refresh_cases", 1)
		switch {
		case g.pan != nil:
			// not an acknowledgement; the statement of C21 says nothing about it
			r.Count("forced_own_refresh_panics", 1)
		case g.err != nil:
			r.Count("forced_own_refresh_grow_rejected", 1)
		default:
			r.Count("forced_own_refresh_grow_acked", 1)
			if final[name] < int(n1) || verifC21Topics(view)[name] < int(n1) {
				r.Violation("grow_ack_lost_to_concurrent_refresh",
					fmt.Sprintf("CreatePartitions(%s,%d) returned nil while a snapshot refresh of the same broker was in flight; after quiescence etcd has %d partitions, the broker shows %d", name, n1, final[name], verifC21Topics(view)[name]), replay)
			}
		}
		r.Case(verifkit.Hash("own", n0, n1), g.err == nil && g.pan == nil && seen)
	}
}

// ---------------------------------------------------------------------------
// leg stress: real watchers, concurrent brokers
// ---------------------------------------------------------------------------

type c21Put struct {
	Broker int            `json:"broker"` // -1 = harness sentinel
	Rev    int64          `json:"rev"`
	Prev   int64          `json:"overwrote_rev"`
	Base   int64          `json:"copy_based_on_rev"`
	Topics map[string]int `json:"topics"`
	Tick   int64          `json:"tick"` // logical time at which the Put was answered
}

type c21Recorder struct {
	mu    sync.Mutex
	puts  []c21Put
	clock atomic.Int64
	gets  map[int][]int64 // broker -> logical times at which a snapshot Get was answered
}

type c21TagKV struct {
	clientv3.KV
	broker int
	rec    *c21Recorder
	base   atomic.Int64
}

func (k *c21TagKV) Get(ctx context.Context, key string, opts ...clientv3.OpOption) (*clientv3.GetResponse, error) {
	resp, err := k.KV.Get(ctx, key, opts...)
	if err == nil && key == snapshotKey() {
		if len(resp.Kvs) > 0 {
			k.base.Store(resp.Kvs[0].ModRevision)
		}
		k.rec.mu.Lock()
		k.rec.gets[k.broker] = append(k.rec.gets[k.broker], k.rec.clock.Add(1))
		k.rec.mu.Unlock()
	}
	return resp, err
}

func (k *c21TagKV) Put(ctx context.Context, key, val string, opts ...clientv3.OpOption) (*clientv3.PutResponse, error) {
	if key != snapshotKey() {
		return k.KV.Put(ctx, key, val, opts...)
	}
	base := k.base.Load()
	resp, err := k.KV.Put(ctx, key, val, append(append([]clientv3.OpOption{}, opts...), clientv3.WithPrevKV())...)
	if err == nil {
		var snap ClusterMetadata
		_ = json.Unmarshal([]byte(val), &snap)
		p := c21Put{Broker: k.broker, Rev: resp.Header.Revision, Base: base, Topics: verifC21Topics(&snap)}
		if resp.PrevKv != nil {
			p.Prev = resp.PrevKv.ModRevision
		}
		k.base.Store(resp.Header.Revision)
		k.rec.mu.Lock()
		p.Tick = k.rec.clock.Add(1)
		k.rec.puts = append(k.rec.puts, p)
		k.rec.mu.Unlock()
	}
	return resp, err
}

type c21Ack struct {
	Broker int    `json:"broker"`
	Op     string `json:"op"`
	Topic  string `json:"topic"`
	N      int32  `json:"n,omitempty"`
	Err    string `json:"err,omitempty"`
	Call   int64  `json:"call"`
	Ret    int64  `json:"ret"`
}

func TestVerifC21Stress(t *testing.T) {
	r := verifkit.Start(t, "C21", "stress")
	defer r.Finish("[stress, real watchers] 3 EtcdStore values built exactly like NewEtcdStore (own etcd client, initial refresh, startWatchers) run 6-9 admin ops each concurrently (create own topics, grow own and foreign topics, create+delete scratch topics); afterwards a sentinel topic is added to the snapshot and the run waits until every broker's Metadata() shows it (sentinel event = all earlier watch events handled); every snapshot Put is recorded at the KV interface with the revision it overwrote and the revision the writer's copy was based on, so a loss is attributed to the Put that caused it; "+c21Rule+" (topics that were ever the target of a delete attempt carry no obligation); non-trivial = a history in which some broker wrote the snapshot from a copy older than the one it overwrote",
		"obligation = the largest acknowledged count: sound for any linearizable implementation, since a later smaller grow would be rejected",
		"sentinel not visible within the watchdog => inconclusive")
	cli, endpoints := c21Etcd(t)
	n := r.N(8, 150)
	for ci := 0; ci < n; ci++ {
		c21StressCase(t, r, cli, endpoints, ci)
	}
	r.Floor("stress_cases_judged", 5)
}

func c21StressCase(t *testing.T, r *verifkit.Run, cli *clientv3.Client, endpoints []string, ci int) {
	rng := r.Rand(ci)
	ctx, cancel := context.WithCancel(context.Background())
	defer cancel()
	wctx, wcancel := context.WithTimeout(ctx, 20*time.Second)
	_, err := cli.Delete(wctx, "/kafscale/", clientv3.WithPrefix())
	wcancel()
	if err != nil {
		r.Inconclusive(fmt.Sprintf("stress case %d: wipe: %v", ci, err))
		return
	}
	rec := &c21Recorder{gets: map[int][]int64{}}
	const nb = 3
	stores := make([]*EtcdStore, nb)
	for i := 0; i < nb; i++ {
		bcli, err := clientv3.New(clientv3.Config{Endpoints: endpoints, DialTimeout: 5 * time.Second})
		if err != nil {
			t.Fatalf("broker client: %v", err)
		}
		bcli.KV = &c21TagKV{KV: bcli.KV, broker: i, rec: rec}
		// the body of NewEtcdStore, with the tagged client
		store := &EtcdStore{client: bcli, metadata: NewInMemoryStore(verifC21Initial(int32(i))), available: 1}
		_ = store.refreshSnapshot(ctx)
		store.startWatchers()
		stores[i] = store
		defer store.Close()
	}
	// op lists are fixed by the PRNG before anything runs
	type planned struct {
		op    string
		topic string
		n     int32
	}
	plans := make([][]planned, nb)
	for i := 0; i < nb; i++ {
		k := 6 + rng.Intn(4)
		own := 0
		for j := 0; j < k; j++ {
			switch x := rng.Intn(10); {
			case x < 4 || own == 0:
				plans[i] = append(plans[i], planned{"create", fmt.Sprintf("b%d-t%d", i, own), int32(1 + rng.Intn(3))})
				own++
			case x < 6:
				plans[i] = append(plans[i], planned{"grow", fmt.Sprintf("b%d-t%d", i, rng.Intn(own)), int32(2 + rng.Intn(6))})
			case x < 8:
				o := rng.Intn(nb)
				plans[i] = append(plans[i], planned{"grow", fmt.Sprintf("b%d-t%d", o, rng.Intn(2)), int32(2 + rng.Intn(6))})
			case x < 9:
				plans[i] = append(plans[i], planned{"create", fmt.Sprintf("tmp-%d-%d", i, j), 1})
				plans[i] = append(plans[i], planned{"delete", fmt.Sprintf("tmp-%d-%d", i, j), 0})
			default:
				plans[i] = append(plans[i], planned{"delete", fmt.Sprintf("tmp-%d-%d", rng.Intn(nb), rng.Intn(k)), 0})
			}
		}
	}
	var mu sync.Mutex
	var acks []c21Ack
	var wg sync.WaitGroup
	panics := atomic.Int64{}
	for i := 0; i < nb; i++ {
		wg.Add(1)
		go func(i int) {
			defer wg.Done()
			for _, p := range plans[i] {
				a := c21Ack{Broker: i, Op: p.op, Topic: p.topic, N: p.n, Call: rec.clock.Add(1)}
				func() {
					defer func() {
						if pv := recover(); pv != nil {
							a.Err = fmt.Sprintf("panic: %v", pv)
							panics.Add(1)
						}
					}()
					var err error
					switch p.op {
					case "create":
						_, err = stores[i].CreateTopic(ctx, TopicSpec{Name: p.topic, NumPartitions: p.n, ReplicationFactor: 1})
					case "grow":
						err = stores[i].CreatePartitions(ctx, p.topic, p.n)
					case "delete":
						err = stores[i].DeleteTopic(ctx, p.topic)
					}
					if err != nil {
						a.Err = err.Error()
					}
				}()
				a.Ret = rec.clock.Add(1)
				mu.Lock()
				acks = append(acks, a)
				mu.Unlock()
			}
		}(i)
	}
	wg.Wait()
	r.Count("stress_panics_in_admin_ops", panics.Load())

	// sentinel: changes have stopped; add a marker topic to whatever the snapshot holds now
	sentinel := fmt.Sprintf("zz-sentinel-%d", ci)
	sctx, scancel := context.WithTimeout(ctx, 20*time.Second)
	resp, err := cli.Get(sctx, snapshotKey())
	if err != nil {
		scancel()
		r.Inconclusive(fmt.Sprintf("stress case %d: read before sentinel: %v", ci, err))
		return
	}
	var snap ClusterMetadata
	if len(resp.Kvs) > 0 {
		if err := json.Unmarshal(resp.Kvs[0].Value, &snap); err != nil {
			scancel()
			r.Violation("snapshot_undecodable", "etcd snapshot is not decodable after the workload: "+err.Error(), map[string]any{"case": ci})
			return
		}
	} else {
		snap = verifC21Initial(0)
	}
	snap.Topics = append(snap.Topics, protocol.MetadataTopic{Topic: kmsg.StringPtr(sentinel), TopicID: TopicIDForName(sentinel),
		Partitions: []protocol.MetadataPartition{{Partition: 0, Leader: 0, Replicas: []int32{0}, ISR: []int32{0}}}})
	payload, _ := json.Marshal(snap)
	_, err = cli.Put(sctx, snapshotKey(), string(payload))
	scancel()
	if err != nil {
		r.Inconclusive(fmt.Sprintf("stress case %d: sentinel put: %v", ci, err))
		return
	}
	shown := false
	for dl := time.Now().Add(30 * time.Second); time.Now().Before(dl); time.Sleep(2 * time.Millisecond) {
		all := true
		for _, s := range stores {
			m, err := s.Metadata(ctx, nil)
			if err != nil {
				all = false
				break
			}
			if _, ok := verifC21Topics(m)[sentinel]; !ok {
				all = false
				break
			}
		}
		if all {
			shown = true
			break
		}
	}
	if !shown {
		r.Inconclusive(fmt.Sprintf("stress case %d: sentinel topic not shown by every broker within the watchdog", ci))
		return
	}
	final, _, err := VerifC21ReadSnapshot(ctx, cli.KV)
	if err != nil {
		r.Inconclusive(fmt.Sprintf("stress case %d: final read: %v", ci, err))
		return
	}
	r.Count("stress_cases_judged", 1)

	// obligations
	deleteTried := map[string]bool{}
	min := map[string]int{}
	by := map[string]c21Ack{}
	for _, a := range acks {
		if a.Op == "delete" {
			deleteTried[a.Topic] = true
		}
	}
	nacked := 0
	for _, a := range acks {
		r.Count("stress_ops_"+a.Op, 1)
		if a.Err != "" {
			continue
		}
		nacked++
		r.Count("stress_acked_"+a.Op, 1)
		if a.Op == "delete" || deleteTried[a.Topic] {
			continue
		}
		if int(a.N) > min[a.Topic] {
			min[a.Topic] = int(a.N)
			by[a.Topic] = a
		}
	}
	rec.mu.Lock()
	puts := append([]c21Put(nil), rec.puts...)
	gets := map[int][]int64{}
	for k, v := range rec.gets {
		gets[k] = append([]int64(nil), v...)
	}
	rec.mu.Unlock()
	sort.Slice(puts, func(a, b int) bool { return puts[a].Rev < puts[b].Rev })
	stalePuts := 0
	for _, p := range puts {
		if p.Prev != 0 && p.Base < p.Prev {
			stalePuts++
		}
	}
	r.Count("stress_snapshot_puts", int64(len(puts)))
	r.Count("stress_puts_from_stale_copy", int64(stalePuts))

	names := make([]string, 0, len(min))
	for name := range min {
		names = append(names, name)
	}
	sort.Strings(names)
	sort.Slice(acks, func(a, b int) bool { return acks[a].Call < acks[b].Call })
	replay := map[string]any{"case": ci, "ops": acks, "snapshot_puts": puts, "etcd_final": final}
	conserved := true
	for _, name := range names {
		need := min[name]
		got, present := final[name]
		if present && got >= need {
			for i, s := range stores {
				m, err := s.Metadata(ctx, nil)
				if err != nil {
					continue
				}
				if g, ok := verifC21Topics(m)[name]; !ok || g < need {
					conserved = false
					r.Violation("broker_view_misses_acked_change_after_refresh",
						fmt.Sprintf("topic %q acked with %d partitions is in etcd (%d) but broker %d shows %d after the sentinel", name, need, got, i, g), replay)
				}
			}
			continue
		}
		conserved = false
		effect := "partitions_shrunk"
		if !present {
			effect = "topic_lost"
		}
		// the Put after which the obligation was, for the last time, no longer met
		culprit := -1
		everOK := false
		for k := len(puts) - 1; k >= 0; k-- {
			if puts[k].Topics[name] >= need {
				everOK = true
				break
			}
			culprit = k
		}
		a := by[name]
		class := "unattributed:" + effect
		why := ""
		switch {
		case !everOK:
			// the acknowledged change never reached etcd. Look at the Put the call itself made (single caller per
			// broker: the only snapshot Put of that broker answered inside the call) and at refreshes of the same
			// broker answered between the start of the call and that Put.
			ownPut := int64(-1)
			for _, p := range puts {
				if p.Broker == a.Broker && p.Tick > a.Call && p.Tick < a.Ret {
					ownPut = p.Tick
				}
			}
			inside := false
			for _, g := range gets[a.Broker] {
				if g > a.Call && g < ownPut {
					inside = true
				}
			}
			switch {
			case ownPut < 0:
				class = "acked_change_never_persisted:" + effect
				why = fmt.Sprintf("the acknowledged %s by broker %d made no snapshot Put", a.Op, a.Broker)
			case a.Op == "grow" && inside:
				class = "grow_ack_lost_to_concurrent_refresh"
				why = fmt.Sprintf("a snapshot refresh of broker %d was answered between the start of its CreatePartitions and the Put that call made; that Put does not hold the growth", a.Broker)
			default:
				class = "acked_change_not_in_snapshot:" + effect
				why = fmt.Sprintf("the snapshot Put made by the acknowledged %s on broker %d does not hold the change, and no refresh of that broker ran inside the call", a.Op, a.Broker)
			}
		case culprit >= 0 && puts[culprit].Broker >= 0 && puts[culprit].Prev != 0 && puts[culprit].Base < puts[culprit].Prev:
			class = "broker_put_from_stale_copy:" + effect
			why = fmt.Sprintf("broker %d wrote the whole snapshot at rev %d from a copy based on rev %d, overwriting rev %d", puts[culprit].Broker, puts[culprit].Rev, puts[culprit].Base, puts[culprit].Prev)
		case culprit >= 0 && puts[culprit].Broker >= 0:
			class = "broker_put_from_current_copy:" + effect
			why = fmt.Sprintf("broker %d wrote the snapshot at rev %d from a copy based on the revision it overwrote (%d)", puts[culprit].Broker, puts[culprit].Rev, puts[culprit].Prev)
		}
		r.Violation(class, fmt.Sprintf("topic %q acked with %d partitions (%s by broker %d), no delete attempted; after the sentinel etcd has %d (present=%v): %s", name, need, a.Op, a.Broker, got, present, why), replay)
	}
	if conserved {
		r.Count("stress_cases_conserved", 1)
	}
	var sig []string
	for _, p := range puts {
		sig = append(sig, fmt.Sprintf("%d:%v", p.Broker, p.Base < p.Prev))
	}
	r.Case(verifkit.Hash("stress", ci, strings.Join(sig, ",")), stalePuts > 0 && nacked > 0 && len(min) > 0)
	if ci == 0 {
		r.Sample(map[string]any{"case": ci, "ops": acks, "snapshot_puts": len(puts), "stale_puts": stalePuts, "conserved": conserved})
	}
}
