//go:build verif

package metadata

import (
	"context"
	"fmt"
	"sync"
	"testing"
	"time"

	"github.com/KafScale/platform/internal/testutil"
	"github.com/KafScale/platform/internal/verifkit"
	clientv3 "go.etcd.io/etcd/client/v3"
	"go.etcd.io/etcd/client/v3/namespace"
)

const c21Rule = "conservation after quiescence: every acknowledged CreateTopic/CreatePartitions not followed by an acknowledged DeleteTopic of that topic obliges the topic to be present with >= the largest acknowledged partition count in the etcd snapshot and in every broker's Metadata(), once all pending snapshot refreshes are delivered"

func c21Etcd(t *testing.T) (*clientv3.Client, []string) {
	endpoints := testutil.StartEmbeddedEtcd(t)
	cli, err := clientv3.New(clientv3.Config{Endpoints: endpoints, DialTimeout: 5 * time.Second})
	if err != nil {
		t.Fatalf("etcd client: %v", err)
	}
	t.Cleanup(func() { _ = cli.Close() })
	return cli, endpoints
}

// ---------------------------------------------------------------------------
// leg det: brokers only, watch delivery is a step
// ---------------------------------------------------------------------------

func TestVerifC21Det(t *testing.T) {
	r := verifkit.Start(t, "C21", "det")
	defer r.Finish("[deterministic histories] 2-3 real EtcdStore values on embedded etcd (built like NewEtcdStore, watcher goroutine not started; delivering a pending snapshot watch event = calling refreshSnapshot, a schedulable step); PRNG histories of start / CreateTopic / CreatePartitions / DeleteTopic on broker i / deliver to broker i; every third case delivers all refreshes after every step (no stale broker); the etcd snapshot is read after every step so that a loss is attributed to the step that caused it; "+c21Rule+"; non-trivial = history with an obligation and an acknowledged admin op executed on a copy that had not seen another writer's snapshot",
		"embedded single-node etcd; one etcd key namespace per case",
		"a watch event is modelled as a boolean 'refresh pending' per broker: the watcher re-reads the current snapshot, not the event's value")
	cli, _ := c21Etcd(t)
	c21ForcedOwnRefresh(t, r, cli)
	n := r.N(100, 1000)
	sem := make(chan struct{}, 8)
	var wg sync.WaitGroup
	for ci := 0; ci < n; ci++ {
		wg.Add(1)
		sem <- struct{}{}
		go func(ci int) {
			defer wg.Done()
			defer func() { <-sem }()
			env := VerifC21Env{R: r, KV: namespace.NewKV(cli.KV, fmt.Sprintf("c21/det/%d/%d/", r.Seed, ci)), Sync: ci%3 == 2}
			VerifC21RunCase(env, ci, r.Rand(ci))
		}(ci)
	}
	wg.Wait()
	r.Floor("cases_with_obligations", 20)
	r.Floor("cases_with_ack_on_stale_copy", 10)
	r.Floor("cases_conserved", 10)
}

// c21GateKV blocks the next Get of the snapshot key after the server... before it is sent, until released.
type c21GateKV struct {
	clientv3.KV
	mu      sync.Mutex
	armed   bool
	arrived chan struct{}
	release chan struct{}
}

func (g *c21GateKV) Get(ctx context.Context, key string, opts ...clientv3.OpOption) (*clientv3.GetResponse, error) {
	g.mu.Lock()
	hold := g.armed && key == snapshotKey()
	if hold {
		g.armed = false
	}
	g.mu.Unlock()
	if hold {
		close(g.arrived)
		select {
		case <-g.release:
		case <-ctx.Done():
			return nil, ctx.Err()
		}
	}
	return g.KV.Get(ctx, key, opts...)
}

// c21ForcedOwnRefresh: single broker. The watcher's refresh (for an earlier put) holds persistMu and is waiting
// for etcd's answer while CreatePartitions runs: CreatePartitions mutates the in-memory copy outside persistMu,
// the refresh then replaces the copy with the older snapshot, and the persist that follows writes the old state.
func c21ForcedOwnRefresh(t *testing.T, r *verifkit.Run, cli *clientv3.Client) {
	n := r.N(6, 40)
	for ci := 0; ci < n; ci++ {
		rng := r.Rand(1_000_000 + ci)
		ctx, cancel := context.WithCancel(context.Background())
		kv := namespace.NewKV(cli.KV, fmt.Sprintf("c21/own/%d/%d/", r.Seed, ci))
		gate := &c21GateKV{KV: kv, arrived: make(chan struct{}), release: make(chan struct{})}
		cc := clientv3.NewCtxClient(ctx)
		cc.KV = gate
		store := verifC21NewStoreNoWatch(ctx, cc, verifC21Initial(0))
		n0 := int32(1 + rng.Intn(3))
		n1 := n0 + int32(1+rng.Intn(3))
		name := fmt.Sprintf("own-%d", ci)
		if _, err := store.CreateTopic(ctx, TopicSpec{Name: name, NumPartitions: n0, ReplicationFactor: 1}); err != nil {
			cancel()
			t.Fatalf("forced case %d: CreateTopic: %v", ci, err)
		}
		// the watch event for that put is delivered now: refreshSnapshot takes persistMu and asks etcd
		gate.mu.Lock()
		gate.armed = true
		gate.mu.Unlock()
		refDone := make(chan error, 1)
		go func() { refDone <- store.refreshSnapshot(ctx) }()
		select {
		case <-gate.arrived:
		case <-time.After(20 * time.Second):
			cancel()
			r.Inconclusive(fmt.Sprintf("forced case %d: refresh never reached etcd", ci))
			continue
		}
		type res struct {
			err error
			pan any
		}
		growDone := make(chan res, 1)
		go func() {
			var out res
			defer func() {
				if p := recover(); p != nil {
					out.pan = p
				}
				growDone <- out
			}()
			out.err = store.CreatePartitions(ctx, name, n1)
		}()
		// wait until the in-memory copy shows the growth (CreatePartitions is then at, or just before, persistMu)
		seen := false
		for dl := time.Now().Add(1500 * time.Millisecond); time.Now().Before(dl); time.Sleep(200 * time.Microsecond) {
			if m, err := store.metadata.Metadata(ctx, []string{name}); err == nil && len(m.Topics) == 1 && int32(len(m.Topics[0].Partitions)) == n1 {
				seen = true
				break
			}
		}
		time.Sleep(20 * time.Millisecond) // pacing only: lets CreatePartitions finish its second Metadata read
		close(gate.release)
		var g res
		select {
		case g = <-growDone:
		case <-time.After(30 * time.Second):
			cancel()
			r.Inconclusive(fmt.Sprintf("forced case %d: CreatePartitions did not return", ci))
			continue
		}
		<-refDone
		_ = store.refreshSnapshot(ctx) // quiescence
		final, _, err := VerifC21ReadSnapshot(ctx, kv)
		view, verr := store.Metadata(ctx, nil)
		cancel()
		if err != nil || verr != nil {
			r.Inconclusive(fmt.Sprintf("forced case %d: final read: %v %v", ci, err, verr))
			continue
		}
		sched := []string{
			fmt.Sprintf("broker 0: CreateTopic(%s,%d) acked", name, n0),
			"broker 0 watcher: refreshSnapshot holds persistMu, Get(snapshot) in flight",
			fmt.Sprintf("broker 0: CreatePartitions(%s,%d) grows the in-memory copy, waits for persistMu", name, n1),
			"etcd answers the Get with the old snapshot; Update() replaces the in-memory copy",
			"CreatePartitions persists the (old) copy, writes partition state keys, returns",
		}
		replay := map[string]any{"case": ci, "topic": name, "created_with": n0, "grown_to": n1, "schedule": sched,
			"grow_error": fmt.Sprint(g.err), "grow_panic": fmt.Sprint(g.pan), "etcd_final": final, "broker_view": verifC21Topics(view), "growth_seen_in_memory": seen}
		r.Count("forced_own_refresh_cases", 1)
		switch {
		case g.pan != nil:
			// not an acknowledgement; the statement of C21 says nothing about it
			r.Count("forced_own_refresh_panics", 1)
		case g.err != nil:
			r.Count("forced_own_refresh_grow_rejected", 1)
		default:
			r.Count("forced_own_refresh_grow_acked", 1)
			if final[name] < int(n1) || verifC21Topics(view)[name] < int(n1) {
				r.Violation("grow_ack_lost_to_concurrent_refresh",
					fmt.Sprintf("CreatePartitions(%s,%d) returned nil while a snapshot refresh of the same broker was in flight; after quiescence etcd has %d partitions, the broker shows %d", name, n1, final[name], verifC21Topics(view)[name]), replay)
			}
		}
		r.Case(verifkit.Hash("own", n0, n1), g.err == nil && g.pan == nil && seen)
	}
}

// ---------------------------------------------------------------------------
// leg stress: real watchers, concurrent brokers (engine: VerifC21StressCase)
// ---------------------------------------------------------------------------

func TestVerifC21Stress(t *testing.T) {
	r := verifkit.Start(t, "C21", "stress")
	defer r.Finish("[stress, real watchers] 3 EtcdStore values built exactly like NewEtcdStore (own etcd client, initial refresh, startWatchers) run 6-9 admin ops each concurrently (create own topics, grow own and foreign topics, create+delete scratch topics); afterwards a sentinel topic is added to the snapshot and the run waits until every broker's Metadata() shows it (sentinel event = all earlier watch events handled); the full revision-ordered history of the snapshot key is taken from a harness watch, and every broker Put is tagged at the KV interface with the revision its copy was based on, so a loss is attributed to the write that caused it; "+c21Rule+" (topics that were ever the target of a delete attempt carry no obligation); non-trivial = a history in which some broker wrote the snapshot from a copy older than the one it overwrote",
		"obligation = the largest acknowledged count: sound for any linearizable implementation, since a later smaller grow would be rejected",
		"sentinel not visible within the watchdog => inconclusive")
	cli, endpoints := c21Etcd(t)
	n := r.N(8, 50)
	for ci := 0; ci < n; ci++ {
		VerifC21StressCase(VerifC21StressEnv{R: r, Cli: cli, Endpoints: endpoints, Prefix: "stress"}, ci, r.Rand(ci))
	}
	r.Floor("stress_cases_judged", 5)
}
