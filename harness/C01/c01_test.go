//go:build verif

package main

import (
	"fmt"
	"strings"
	"testing"
	"testing/synctest"

	"github.com/KafScale/platform/internal/verifkit"
)

type c01Witness struct {
	Config   map[string]any `json:"config"`
	Schedule []string       `json:"schedule"`
	Acked    plogRes        `json:"acked"`
	S3Keys   []string       `json:"s3_keys"`
	S3Events []vS3Event     `json:"s3_events"`
	Why      string         `json:"why"`
}

// c01Durable is the oracle: the acked batch is in a completed segment object
// (with index) at the acknowledged base offset, byte for byte apart from the base.
func c01Durable(s *scenario, r plogRes) (bool, string) {
	for _, seg := range s.committedSegments(r.Req.Topic, r.Req.Partition, true) {
		if seg.Err != "" {
			continue
		}
		for i, b := range seg.Batches {
			if b.BaseOffset == r.Base && sameBatchIgnoringBase(seg.RawBatch[i], r.Req.Batch) {
				return true, ""
			}
		}
	}
	// diagnose
	for _, seg := range s.committedSegments(r.Req.Topic, r.Req.Partition, false) {
		for i := range seg.Batches {
			if sameBatchIgnoringBase(seg.RawBatch[i], r.Req.Batch) {
				if seg.Batches[i].BaseOffset != r.Base {
					return false, fmt.Sprintf("batch stored at offset %d but acknowledged at %d", seg.Batches[i].BaseOffset, r.Base)
				}
				return false, "batch is in a .kfs object that has no .index object"
			}
		}
	}
	return false, "batch is in no S3 segment object"
}

// c01Class gives the violation a deterministic class from the witness.
func c01Class(s *scenario, why string) string {
	failed := 0
	for _, l := range s.trace {
		if strings.HasPrefix(l, "fail") {
			failed++
		}
	}
	switch {
	case strings.Contains(why, "no S3 segment") && failed > 0:
		return "acked_batch_dropped_after_failed_flush_of_another_producer"
	case strings.Contains(why, "no S3 segment"):
		return "acked_batch_not_in_s3_without_any_fault"
	case strings.Contains(why, "no .index"):
		return "acked_batch_segment_without_index"
	case strings.Contains(why, "acknowledged at"):
		return "acked_base_offset_differs_from_stored"
	case strings.Contains(why, "restart"):
		return "acked_batch_unreadable_after_restart"
	}
	return "other"
}

// c01Run executes one scenario under chooser ch and applies the monitors.
func c01Run(t *testing.T, r *verifkit.Run, cfg plogCfg, ch chooser) (sig string, acked, faultsUsed int, waiters bool) {
	synctest.Test(t, func(t *testing.T) {
		s := newScenario(t, cfg)
		var ackedRes []plogRes
		reported := map[string]bool{}
		s.onReply = func(s *scenario, res plogRes) {
			if res.Req.Kind != "produce" || res.Err != "" || res.NoReply || res.Code != 0 || res.Req.Acks == 0 {
				return
			}
			ackedRes = append(ackedRes, res)
			r.Count("acks_checked", 1)
			if ok, why := c01Durable(s, res); !ok {
				cls := c01Class(s, why)
				if !reported[cls] {
					reported[cls] = true
					r.Violation(cls, fmt.Sprintf("produce %s acknowledged at offset %d but %s", res.Req.BatchID, res.Base, why),
						c01Witness{Config: c01CfgSummary(cfg), Schedule: append([]string(nil), s.trace...), Acked: res, S3Keys: s.s3.keys(""), S3Events: s.s3.events, Why: why})
				}
			}
		}
		s.onQuiescent = func(s *scenario) {
			// coverage: how many producers are parked behind someone else's flush right now
			busy := 0
			for _, a := range s.actors {
				if a.busy {
					busy++
				}
			}
			if busy >= 3 {
				waiters = true
			}
		}
		s.run(ch)
		// restart: a fresh broker over the same S3 + store must serve every acknowledged batch
		s.sc.gated = map[string]bool{}
		s.cfg.DefaultHealth = false // the read-back is about durability, not about the health gate (C25) tripping on the restore's own 404s
		s.newInstance()
		h, inst := s.hs[s.cur], s.insts[s.cur]
		for _, res := range ackedRes {
			f := plogExec(h, inst, 99, 0, plogReq{Kind: "fetch", Topic: res.Req.Topic, Partition: res.Req.Partition, Offset: res.Base, MaxBytes: 1 << 20})
			r.Count("restart_fetches", 1)
			ok := false
			if f.Err == "" && f.Code == 0 {
				p := 0
				for p+61 <= len(f.Records) {
					n := 12 + int(int32(uint32(f.Records[p+8])<<24|uint32(f.Records[p+9])<<16|uint32(f.Records[p+10])<<8|uint32(f.Records[p+11])))
					if n < 61 || p+n > len(f.Records) {
						break
					}
					if sameBatchIgnoringBase(f.Records[p:p+n], res.Req.Batch) {
						ok = true
					}
					p += n
				}
			}
			if !ok {
				why := fmt.Sprintf("after restart fetch at %d returned code=%d err=%q %d bytes without the batch", res.Base, f.Code, f.Err, len(f.Records))
				cls := "acked_batch_unreadable_after_restart"
				if d, _ := c01Durable(s, res); !d {
					cls = "acked_batch_unreadable_after_restart_not_in_s3"
				}
				if !reported[cls] && !reported["acked_batch_dropped_after_failed_flush_of_another_producer"] {
					reported[cls] = true
					r.Violation(cls, fmt.Sprintf("produce %s acknowledged at offset %d: %s", res.Req.BatchID, res.Base, why),
						c01Witness{Config: c01CfgSummary(cfg), Schedule: append([]string(nil), s.trace...), Acked: res, S3Keys: s.s3.keys(""), S3Events: s.s3.events, Why: why})
				}
			}
		}
		s.teardown()
		sig = traceSig(s.trace)
		acked = len(ackedRes)
		faultsUsed = s.faults + s.cancels
		if s.cancels > 0 {
			r.Count("cases_with_ctx_cancel", 1)
		}
		for _, e := range s.s3.events {
			r.Count("s3_"+e.Op+"_"+e.Outcome, 1)
		}
		r.Count("store_update_offsets", int64(len(s.hub.events)))
		r.Count("scheduler_steps", int64(len(s.trace)))
	})
	return
}

const c01Rule = "case = (scenario, schedule): 2-3 producers x 1-3 batches on 1-2 partitions, buffer thresholds {never auto-flush, flush every append, flush at 3 msgs}, index interval {1,3,100}, cache on/off; the scheduler picks, at each quiescent point, which producer issues its next produce or which pending upload_segment/upload_index/update_offsets completes, and its outcome (ok, fail, fail-after-effect; <=2 faults). distinct = distinct schedule signature; non-trivial = at least one ack was checked AND (a fault was injected OR >=3 producers were in flight at once)"

func TestVerifC01Sampled(t *testing.T) {
	r := verifkit.Start(t, "C01", "sampled")
	defer r.Finish(c01Rule, "fake S3: atomic puts, read-after-write; metadata store = real InMemoryStore behind a gate", "schedules inside one mutex-to-mutex gap are left to the Go runtime")
	n := r.N(700, 60000)
	for ci := 0; ci < n; ci++ {
		rng := r.Rand(ci)
		cfg := c01Cfg(rng, 2+rng.Intn(2), 1+rng.Intn(3), int32(1+rng.Intn(2)))
		sig, acked, faults, waiters := c01Run(t, r, cfg, &rngChooser{rng: rng, faultProb: 0.25})
		r.Case(fmt.Sprint(ci, sig), acked > 0 && (faults > 0 || waiters))
		r.Seen("schedules", sig)
		if faults > 0 {
			r.Count("cases_with_fault", 1)
		}
		if waiters {
			r.Count("cases_with_3_in_flight", 1)
		}
		if ci < 2 {
			r.Sample(map[string]any{"config": c01CfgSummary(cfg), "schedule": strings.Split(sig, " ")})
		}
	}
	r.Floor("acks_checked", 100)
	r.Floor("cases_with_fault", 20)
	r.Floor("cases_with_3_in_flight", 20)
}

// TestVerifC01Exhaustive enumerates EVERY schedule and fault placement for
// three producers with one batch each on one partition (the smallest
// configuration in which a producer can be parked behind a flush that another
// parked producer will perform), with at most one upload fault.
func TestVerifC01Exhaustive(t *testing.T) {
	r := verifkit.Start(t, "C01", "exhaustive")
	defer r.Finish("stateless DFS over all scheduler choice sequences for 3 producers x 1 batch, 1 partition, never-auto-flush buffer, gates on upload_segment/upload_index (update_offsets ungated to bound the space), <=1 fault of kind fail-before on any upload; non-trivial = a fault was injected and an ack was checked",
		"bounded by max runs in the quick tier (exhaustive flag reports whether the space was finished)")
	rng := r.Rand(0)
	mk := func() plogCfg {
		cfg := plogCfg{Topics: map[string]int32{"t": 1}, Gated: []string{"upload_segment", "upload_index"}, FaultKinds: []outcome{outFailBefore}, FaultBudget: 1,
			FlushOnAck: true, IndexInterval: 1, BufferMaxBytes: 1 << 30, MaxSteps: 200}
		for p := 0; p < 3; p++ {
			id := fmt.Sprintf("p%d/0", p)
			cfg.Actors = append(cfg.Actors, []plogReq{{Kind: "produce", Topic: "t", Partition: 0, Acks: -1, Batch: mkBatch(rng, id, 1+p, 4), BatchID: id, NRecords: 1 + p}})
		}
		return cfg
	}
	cfg := mk()
	maxRuns := r.N(2500, 250000)
	var prefix []int
	runs := 0
	done := false
	for runs < maxRuns {
		ch := &dfsChooser{prefix: prefix}
		sig, acked, faults, _ := c01Run(t, r, cfg, ch)
		runs++
		r.Case(sig, acked > 0 && faults > 0)
		r.Seen("schedules", sig)
		if runs <= 1 {
			r.Sample(map[string]any{"config": c01CfgSummary(cfg), "schedule": strings.Split(sig, " ")})
		}
		next, ok := ch.next()
		if !ok {
			done = true
			break
		}
		prefix = next
	}
	r.Exhaustive(done)
	r.Note("dfs_runs", runs)
	r.Floor("acks_checked", 100)
}
