//go:build verif

package metadata

// Overwrite workload of C17: the same stored record (a committed consumer offset with its
// metadata string, a consumer-group record with its members, a topic config with its config
// map, the next offset of a partition) is written again and again on the same pair of store
// instances, and every new value is derived from the value the record held before: each field
// that held a non-zero value goes to its zero value ("" / 0 / -1 / nil or empty list or map /
// element removed) about half of the time, each field that held a zero value gets a fresh
// non-zero value most of the time, the others keep what they had.  A store that writes a field
// only when it "has something in it", merges instead of replacing, or keeps a side table that an
// empty value does not reach, answers the following read with what the record held earlier.

import (
	"fmt"
	"sort"

	"google.golang.org/protobuf/proto"

	metadatapb "github.com/KafScale/platform/pkg/gen/metadata"
)

// c17IsZero: the canonical rendering of a zero value (empty string, 0, -1 "none", empty list).
func c17IsZero(v string) bool {
	return v == "" || v == "0" || v == "-1" || v == "[]"
}

// c17Transitions compares the canonical fields of the value a record held (prev, nil = no
// record) with those of the value that replaces it and names the generic field paths that went
// from non-zero to zero / absent and from zero / absent to non-zero.
func c17Transitions(prev, next []c17KV) (toZero, fromZero []string) {
	a, b := map[string]c17KV{}, map[string]c17KV{}
	var keys []string
	for _, e := range prev {
		a[e.Key] = e
		keys = append(keys, e.Key)
	}
	for _, e := range next {
		if _, ok := a[e.Key]; !ok {
			keys = append(keys, e.Key)
		}
		b[e.Key] = e
	}
	seenTo, seenFrom := map[string]bool{}, map[string]bool{}
	for _, k := range keys {
		x, okx := a[k]
		y, oky := b[k]
		pz := !okx || c17IsZero(x.Val)
		nz := !oky || c17IsZero(y.Val)
		path := x.Path
		if !okx {
			path = y.Path
		}
		if !pz && nz && !seenTo[path] {
			seenTo[path] = true
			toZero = append(toZero, path)
		}
		if pz && !nz && !seenFrom[path] {
			seenFrom[path] = true
			fromZero = append(fromZero, path)
		}
	}
	return toZero, fromZero
}

func c17GroupKV(g *metadatapb.ConsumerGroup) []c17KV {
	var kv []c17KV
	c17Group(&kv, "g", g)
	return kv
}

func c17CommitKV(o c17Op) []c17KV {
	return []c17KV{{Path: "offset", Key: "offset", Val: fmt.Sprint(o.N)}, {Path: "metadata", Key: "metadata", Val: o.Meta}}
}

func c17NextKV(o c17Op) []c17KV {
	return []c17KV{{Path: "next_offset", Key: "next_offset", Val: fmt.Sprint(o.N + 1)}}
}

type c17Part struct {
	T string
	P int32
}

// c17Prev: the last value of every record that BOTH stores accepted (steers the overwrite
// workload and feeds the coverage counters; it never judges a result).
type c17Prev struct {
	commit map[c17Tuple]c17Op
	group  map[string]*metadatapb.ConsumerGroup
	cfg    map[string]*metadatapb.TopicConfig // live topics only
	next   map[c17Part]c17Op                  // live topics only, current incarnation
}

func c17NewPrev() *c17Prev {
	return &c17Prev{commit: map[c17Tuple]c17Op{}, group: map[string]*metadatapb.ConsumerGroup{}, cfg: map[string]*metadatapb.TopicConfig{}, next: map[c17Part]c17Op{}}
}

func (p *c17Prev) forgetTopic(t string) {
	delete(p.cfg, t)
	for k := range p.next {
		if k.T == t {
			delete(p.next, k)
		}
	}
}

// toZero decides the fate of one field: given whether it holds a zero value now, should the
// next value be zero?
func (g *c17Gen) toZero(zeroNow bool) bool {
	if zeroNow {
		return g.rng.Intn(10) >= 7 // a zero field mostly gets a value
	}
	return g.rng.Intn(2) == 0 // a set field is cleared half of the time
}

func (g *c17Gen) zeroInt() int64 {
	if g.rng.Intn(4) == 0 {
		return -1
	}
	return 0
}

func (g *c17Gen) nextStr(prev, stem string) string {
	if g.toZero(prev == "") {
		return ""
	}
	return fmt.Sprintf("%s-%d", stem, g.next())
}

func (g *c17Gen) nextI32(prev int32, base int64) int32 {
	if g.toZero(prev == 0 || prev == -1) {
		return int32(g.zeroInt())
	}
	return int32(base + g.next())
}

func (g *c17Gen) nextI64(prev int64, base int64) int64 {
	if g.toZero(prev == 0 || prev == -1) {
		return g.zeroInt()
	}
	return base + g.next()
}

// meta: the metadata string of a fresh commit; a quarter of the commits carry none (the
// committed offset is unique, so the commit stays identifiable).
func (g *c17Gen) meta() string {
	if g.rng.Intn(4) == 0 {
		return ""
	}
	return c17MetaAlphabet[g.rng.Intn(len(c17MetaAlphabet))] + fmt.Sprintf("#%d", g.ctr)
}

func (g *c17Gen) recommit(tu c17Tuple, prev c17Op) c17Op {
	o := c17Op{Kind: "CommitConsumerOffset", Group: tu.G, Topic: tu.T, Part: tu.P}
	o.N = g.nextI64(prev.N, 1000)
	if g.toZero(prev.Meta == "") {
		o.Meta = ""
	} else {
		o.Meta = c17MetaAlphabet[1+g.rng.Intn(len(c17MetaAlphabet)-1)] + fmt.Sprintf("#%d", g.next())
	}
	return o
}

func (g *c17Gen) toggleMember(prev *metadatapb.GroupMember) *metadatapb.GroupMember {
	m := &metadatapb.GroupMember{
		ClientId:         g.nextStr(prev.ClientId, "client"),
		ClientHost:       g.nextStr(prev.ClientHost, "/10.0.0.1"),
		SessionTimeoutMs: g.nextI32(prev.SessionTimeoutMs, 2000),
	}
	if !g.toZero(prev.HeartbeatAt == "") {
		m.HeartbeatAt = fmt.Sprintf("2024-01-02T03:04:%02d.%09dZ", g.rng.Intn(60), g.next())
	}
	if g.toZero(len(prev.Subscriptions) == 0) {
		if g.rng.Intn(2) == 0 {
			m.Subscriptions = []string{} // empty, not nil
		}
	} else {
		for k := 1 + g.rng.Intn(2); k > 0; k-- {
			m.Subscriptions = append(m.Subscriptions, g.topic())
		}
	}
	if g.toZero(len(prev.Assignments) == 0) {
		if g.rng.Intn(2) == 0 {
			m.Assignments = []*metadatapb.Assignment{}
		}
	} else {
		// keep the shape of the earlier assignments where there were some, and toggle their fields
		k := len(prev.Assignments)
		if k == 0 || g.rng.Intn(3) == 0 {
			k = 1 + g.rng.Intn(2)
		}
		for i := 0; i < k; i++ {
			var pa *metadatapb.Assignment
			if i < len(prev.Assignments) && prev.Assignments[i] != nil {
				pa = prev.Assignments[i]
			} else {
				pa = &metadatapb.Assignment{}
			}
			a := &metadatapb.Assignment{}
			if !g.toZero(pa.Topic == "") {
				a.Topic = g.topic()
			}
			if g.toZero(len(pa.Partitions) == 0) {
				if g.rng.Intn(2) == 0 {
					a.Partitions = []int32{}
				}
			} else {
				for q := 1 + g.rng.Intn(2); q > 0; q-- {
					a.Partitions = append(a.Partitions, g.part())
				}
			}
			m.Assignments = append(m.Assignments, a)
		}
	}
	return m
}

// toggleGroup derives the next record of a group from the one both stores hold.
func (g *c17Gen) toggleGroup(prev *metadatapb.ConsumerGroup) *metadatapb.ConsumerGroup {
	out := &metadatapb.ConsumerGroup{
		GroupId:            prev.GroupId,
		State:              g.nextStr(prev.State, "state"),
		ProtocolType:       g.nextStr(prev.ProtocolType, "consumer"),
		Protocol:           g.nextStr(prev.Protocol, "range"),
		GenerationId:       g.nextI32(prev.GenerationId, 0),
		RebalanceTimeoutMs: g.nextI32(prev.RebalanceTimeoutMs, 1000),
	}
	ids := make([]string, 0, len(prev.Members))
	for id := range prev.Members {
		ids = append(ids, id)
	}
	sort.Strings(ids)
	if g.toZero(len(ids) == 0) {
		if g.rng.Intn(2) == 0 {
			out.Members = map[string]*metadatapb.GroupMember{} // empty, not nil
		}
	} else {
		out.Members = map[string]*metadatapb.GroupMember{}
		for _, id := range ids { // the same member ids come back with other field values
			if prev.Members[id] == nil || g.rng.Intn(4) == 0 {
				continue // member left
			}
			out.Members[id] = g.toggleMember(prev.Members[id])
		}
		if len(out.Members) == 0 || g.rng.Intn(3) == 0 {
			out.Members[fmt.Sprintf("%s-member-%d", out.GroupId, g.next())] = g.toggleMember(&metadatapb.GroupMember{})
		}
	}
	if !g.toZero(prev.Leader == "") {
		out.Leader = fmt.Sprintf("%s-member-%d", out.GroupId, g.next()) // a leader that is no member is data like any other
		now := make([]string, 0, len(out.Members))
		for id := range out.Members {
			now = append(now, id)
		}
		sort.Strings(now)
		if len(now) > 0 && g.rng.Intn(4) > 0 {
			out.Leader = now[g.rng.Intn(len(now))]
		}
	}
	return out
}

// toggleConfig derives the next config of a topic from the one both stores hold. Non-zero
// replication factors are >= 20 so that they never coincide with a partition count.
func (g *c17Gen) toggleConfig(prev *metadatapb.TopicConfig) *metadatapb.TopicConfig {
	cfg := &metadatapb.TopicConfig{
		Name:           prev.Name,
		RetentionMs:    g.nextI64(prev.RetentionMs, 60000),
		RetentionBytes: g.nextI64(prev.RetentionBytes, 1<<20),
		SegmentBytes:   g.nextI64(prev.SegmentBytes, 1<<16),
	}
	if g.toZero(prev.ReplicationFactor == 0 || prev.ReplicationFactor == -1) {
		cfg.ReplicationFactor = int32(g.zeroInt())
	} else {
		cfg.ReplicationFactor = int32(20 + g.next()%10)
	}
	// partitions: 0 = "keep the topic's count" (both stores substitute it); sometimes an explicit value
	if g.rng.Intn(4) == 0 {
		cfg.Partitions = []int32{1, 2, 5}[g.rng.Intn(3)]
	}
	if g.rng.Intn(2) == 0 {
		cfg.CreatedAt = "2020-01-01T00:00:00Z"
	}
	keys := make([]string, 0, len(prev.Config))
	for k := range prev.Config {
		keys = append(keys, k)
	}
	sort.Strings(keys)
	if g.toZero(len(keys) == 0) {
		if g.rng.Intn(2) == 0 {
			cfg.Config = map[string]string{}
		}
	} else {
		cfg.Config = map[string]string{}
		for _, k := range keys { // same keys: value cleared, replaced, or key dropped
			switch g.rng.Intn(4) {
			case 0: // dropped
			case 1:
				cfg.Config[k] = ""
			default:
				cfg.Config[k] = g.nextStr(prev.Config[k], "v")
			}
		}
		if len(cfg.Config) == 0 || g.rng.Intn(3) == 0 {
			cfg.Config[fmt.Sprintf("k%d", g.next())] = g.nextStr("", "v")
		}
	}
	return cfg
}

func (g *c17Gen) liveTopics() []string {
	var out []string
	for t, n := range g.live {
		if n > 0 {
			out = append(out, t)
		}
	}
	sort.Strings(out)
	return out
}

// overwrite picks a record that both stores already hold and writes it again with a value
// derived from the held one; when no record of the drawn kind exists yet it writes a first one.
func (g *c17Gen) overwrite() c17Op {
	switch g.rng.Intn(4) {
	case 0: // consumer offset + metadata
		var tl []c17Tuple
		for tu := range g.prev.commit {
			tl = append(tl, tu)
		}
		if len(tl) > 0 {
			sort.Slice(tl, func(i, j int) bool { return fmt.Sprint(tl[i]) < fmt.Sprint(tl[j]) })
			tu := tl[g.rng.Intn(len(tl))]
			return g.recommit(tu, g.prev.commit[tu])
		}
		t, p := g.topic(), g.part()
		if lt := g.liveTopics(); len(lt) > 0 {
			t = lt[g.rng.Intn(len(lt))]
			p = int32(g.rng.Intn(int(g.live[t])))
		}
		return c17Op{Kind: "CommitConsumerOffset", Group: g.group(), Topic: t, Part: p, N: 1000 + g.next(), Meta: g.meta()}
	case 1: // group record
		var ids []string
		for id := range g.prev.group {
			ids = append(ids, id)
		}
		if len(ids) > 0 {
			sort.Strings(ids)
			return c17Op{Kind: "PutConsumerGroup", GroupV: g.toggleGroup(g.prev.group[ids[g.rng.Intn(len(ids))]])}
		}
		v := g.groupValue()
		if v.GroupId == "" {
			v.GroupId = g.group()
		}
		return c17Op{Kind: "PutConsumerGroup", GroupV: v}
	case 2: // topic config
		lt := g.liveTopics()
		if len(lt) == 0 {
			return g.guided()
		}
		t := lt[g.rng.Intn(len(lt))]
		if prev, ok := g.prev.cfg[t]; ok {
			return c17Op{Kind: "UpdateTopicConfig", CfgV: g.toggleConfig(prev)}
		}
		cfg := g.configValue()
		cfg.Name = t
		return c17Op{Kind: "UpdateTopicConfig", CfgV: cfg}
	default: // next offset of a partition
		var pl []c17Part
		for k := range g.prev.next {
			pl = append(pl, k)
		}
		if len(pl) > 0 {
			sort.Slice(pl, func(i, j int) bool { return fmt.Sprint(pl[i]) < fmt.Sprint(pl[j]) })
			k := pl[g.rng.Intn(len(pl))]
			o := c17Op{Kind: "UpdateOffsets", Topic: k.T, Part: k.P}
			if next := g.prev.next[k].N + 1; g.toZero(next == 0 || next == -1) {
				o.N = []int64{-1, -1, -1, -2}[g.rng.Intn(4)] // next offset 0 (or -1)
			} else {
				o.N = g.next() * 10
			}
			return o
		}
		lt := g.liveTopics()
		if len(lt) == 0 {
			return g.guided()
		}
		t := lt[g.rng.Intn(len(lt))]
		return c17Op{Kind: "UpdateOffsets", Topic: t, Part: int32(g.rng.Intn(int(g.live[t]))), N: g.next() * 10}
	}
}

// c17Overwrite is what the bookkeeping of one accepted write reports back to the case loop.
type c17Overwrite struct {
	kind             string // "commit", "group", "config", "next_offset"
	over             bool   // the record existed (both stores had accepted an earlier write of it)
	toZero, fromZero []string
	reads            []c17Op // reads of exactly this record, issued right after the write
	list             string  // list operation that covers the record
}

// noteWrite is called for every write that both stores accepted.
func (g *c17Gen) noteWrite(o c17Op) *c17Overwrite {
	if o.NilArg {
		return nil
	}
	switch o.Kind {
	case "CommitConsumerOffset":
		tu := c17Tuple{o.Group, o.Topic, o.Part}
		w := &c17Overwrite{kind: "commit", list: "ListConsumerOffsets", reads: []c17Op{
			{Kind: "FetchConsumerOffset", Group: o.Group, Topic: o.Topic, Part: o.Part},
			{Kind: "LookupConsumerOffset", Group: o.Group, Topic: o.Topic, Part: o.Part}}}
		if prev, ok := g.prev.commit[tu]; ok {
			w.over = true
			w.toZero, w.fromZero = c17Transitions(c17CommitKV(prev), c17CommitKV(o))
		}
		g.prev.commit[tu] = o
		return w
	case "PutConsumerGroup":
		w := &c17Overwrite{kind: "group", list: "ListConsumerGroups", reads: []c17Op{{Kind: "FetchConsumerGroup", Group: o.GroupV.GroupId}}}
		if prev, ok := g.prev.group[o.GroupV.GroupId]; ok {
			w.over = true
			w.toZero, w.fromZero = c17Transitions(c17GroupKV(prev), c17GroupKV(o.GroupV))
		}
		g.prev.group[o.GroupV.GroupId] = proto.Clone(o.GroupV).(*metadatapb.ConsumerGroup)
		return w
	case "UpdateTopicConfig":
		w := &c17Overwrite{kind: "config", reads: []c17Op{{Kind: "FetchTopicConfig", Topic: o.CfgV.Name}}}
		if prev, ok := g.prev.cfg[o.CfgV.Name]; ok {
			w.over = true
			w.toZero, w.fromZero = c17Transitions(c17Config(prev), c17Config(o.CfgV))
		}
		g.prev.cfg[o.CfgV.Name] = proto.Clone(o.CfgV).(*metadatapb.TopicConfig)
		return w
	case "UpdateOffsets":
		n, live := g.live[o.Topic]
		if !live || o.Part < 0 || o.Part >= n {
			return nil // both stores accept the write, but no caller can read it back while the partition does not exist
		}
		k := c17Part{o.Topic, o.Part}
		w := &c17Overwrite{kind: "next_offset", reads: []c17Op{{Kind: "NextOffset", Topic: o.Topic, Part: o.Part}}}
		if prev, ok := g.prev.next[k]; ok {
			w.over = true
			w.toZero, w.fromZero = c17Transitions(c17NextKV(prev), c17NextKV(o))
		}
		g.prev.next[k] = o
		return w
	}
	return nil
}
