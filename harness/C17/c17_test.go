//go:build verif

package metadata

import (
	"context"
	"encoding/hex"
	"errors"
	"fmt"
	"math/rand"
	"sort"
	"strings"
	"sync"
	"testing"
	"time"

	clientv3 "go.etcd.io/etcd/client/v3"
	"google.golang.org/grpc/status"
	"google.golang.org/protobuf/proto"

	"github.com/KafScale/platform/internal/verifkit"
	metadatapb "github.com/KafScale/platform/pkg/gen/metadata"
	"github.com/KafScale/platform/pkg/protocol"
	"github.com/twmb/franz-go/pkg/kmsg"
)

// ---------------------------------------------------------------- canonical results

// c17KV is one observable fact of a result. Path is generic (used for the
// violation class), Key identifies the fact inside the result, Val is its value.
type c17KV struct {
	Path, Key, Val string
	Ent            string // entity (list element) this fact belongs to, "" if none
	Head           bool   // the fact that says the entity is present
	Ref            any    // harness-side identity of the entity (c17Tuple or group id)
}

type c17Res struct {
	Err string // "ok" or the sentinel class of the error
	Msg string // error text (informational)
	KV  []c17KV
}

func c17ErrClass(err error) (string, string) {
	switch {
	case err == nil:
		return "ok", ""
	case errors.Is(err, ErrTopicExists):
		return "ErrTopicExists", err.Error()
	case errors.Is(err, ErrInvalidTopic):
		return "ErrInvalidTopic", err.Error()
	case errors.Is(err, ErrUnknownTopic):
		return "ErrUnknownTopic", err.Error()
	case errors.Is(err, ErrStoreUnavailable):
		return "ErrStoreUnavailable", err.Error()
	case errors.Is(err, context.Canceled):
		return "context.Canceled", err.Error()
	case errors.Is(err, context.DeadlineExceeded):
		return "context.DeadlineExceeded", err.Error()
	}
	if _, ok := status.FromError(err); ok || strings.Contains(err.Error(), "etcdserver:") {
		return "etcd_rpc_error", err.Error() // the embedded etcd itself refused or timed out
	}
	return "error", err.Error()
}

func c17Ints(v []int32) string { return fmt.Sprint(append([]int32{}, v...)) }

func c17Topic(kv *[]c17KV, id string, t protocol.MetadataTopic) {
	add := func(p, k, v string) { *kv = append(*kv, c17KV{Path: "topic." + p, Key: id + "." + k, Val: v}) }
	name := "<nil>"
	if t.Topic != nil {
		name = *t.Topic
	}
	add("name", "name", name)
	add("error_code", "error_code", fmt.Sprint(t.ErrorCode))
	add("topic_id", "topic_id", hex.EncodeToString(t.TopicID[:]))
	add("is_internal", "is_internal", fmt.Sprint(t.IsInternal))
	add("authorized_operations", "authorized_operations", fmt.Sprint(t.AuthorizedOperations))
	add("partition_count", "partition_count", fmt.Sprint(len(t.Partitions)))
	for i, p := range t.Partitions {
		pk := fmt.Sprintf("p[%d]", i)
		add("partition.id", pk+".id", fmt.Sprint(p.Partition))
		add("partition.error_code", pk+".error_code", fmt.Sprint(p.ErrorCode))
		add("partition.leader", pk+".leader", fmt.Sprint(p.Leader))
		add("partition.leader_epoch", pk+".leader_epoch", fmt.Sprint(p.LeaderEpoch))
		add("partition.replicas", pk+".replicas", c17Ints(p.Replicas))
		add("partition.isr", pk+".isr", c17Ints(p.ISR))
		add("partition.offline", pk+".offline", c17Ints(p.OfflineReplicas))
	}
}

func c17Str(p *string) string {
	if p == nil {
		return "<nil>"
	}
	return "=" + *p
}

func c17Meta(md *ClusterMetadata) []c17KV {
	var kv []c17KV
	if md == nil {
		return []c17KV{{Path: "metadata", Key: "metadata", Val: "<nil>"}}
	}
	kv = append(kv, c17KV{Path: "controller_id", Key: "controller_id", Val: fmt.Sprint(md.ControllerID)},
		c17KV{Path: "cluster_name", Key: "cluster_name", Val: c17Str(md.ClusterName)},
		c17KV{Path: "cluster_id", Key: "cluster_id", Val: c17Str(md.ClusterID)},
		c17KV{Path: "broker_count", Key: "broker_count", Val: fmt.Sprint(len(md.Brokers))},
		c17KV{Path: "topic_count", Key: "topic_count", Val: fmt.Sprint(len(md.Topics))})
	for i, b := range md.Brokers {
		kv = append(kv, c17KV{Path: "broker", Key: fmt.Sprintf("broker[%d]", i), Val: fmt.Sprintf("%d %q %d %s", b.NodeID, b.Host, b.Port, c17Str(b.Rack))})
	}
	for i, t := range md.Topics { // order is part of what a caller sees
		c17Topic(&kv, fmt.Sprintf("topic[%d]", i), t)
	}
	return kv
}

func c17Group(kv *[]c17KV, id string, g *metadatapb.ConsumerGroup) {
	add := func(p, k, v string) {
		e := c17KV{Path: "group." + p, Key: id + "." + k, Val: v, Ent: id, Head: p == "present"}
		if g != nil {
			e.Ref = g.GroupId
		}
		*kv = append(*kv, e)
	}
	if g == nil {
		add("present", "present", "false")
		return
	}
	add("present", "present", "true")
	add("group_id", "group_id", g.GroupId)
	add("state", "state", g.State)
	add("protocol_type", "protocol_type", g.ProtocolType)
	add("protocol", "protocol", g.Protocol)
	add("leader", "leader", g.Leader)
	add("generation_id", "generation_id", fmt.Sprint(g.GenerationId))
	add("rebalance_timeout_ms", "rebalance_timeout_ms", fmt.Sprint(g.RebalanceTimeoutMs))
	add("member_count", "member_count", fmt.Sprint(len(g.Members)))
	ids := make([]string, 0, len(g.Members))
	for m := range g.Members {
		ids = append(ids, m)
	}
	sort.Strings(ids)
	for _, m := range ids {
		mem := g.Members[m]
		mk := fmt.Sprintf("member[%q]", m)
		if mem == nil {
			add("member.present", mk+".present", "false")
			continue
		}
		add("member.client_id", mk+".client_id", mem.ClientId)
		add("member.client_host", mk+".client_host", mem.ClientHost)
		add("member.heartbeat_at", mk+".heartbeat_at", mem.HeartbeatAt) // supplied by the caller: data, not a clock reading
		add("member.session_timeout_ms", mk+".session_timeout_ms", fmt.Sprint(mem.SessionTimeoutMs))
		add("member.subscriptions", mk+".subscriptions", fmt.Sprintf("%q", append([]string{}, mem.Subscriptions...)))
		var as []string
		for _, a := range mem.Assignments {
			if a == nil {
				as = append(as, "<nil>")
				continue
			}
			as = append(as, fmt.Sprintf("%q%v", a.Topic, append([]int32{}, a.Partitions...)))
		}
		add("member.assignments", mk+".assignments", strings.Join(as, ";"))
	}
}

func c17Config(cfg *metadatapb.TopicConfig) []c17KV {
	if cfg == nil {
		return []c17KV{{Path: "topic_config.present", Key: "present", Val: "false"}}
	}
	kv := []c17KV{
		{Path: "topic_config.present", Key: "present", Val: "true"},
		{Path: "topic_config.name", Key: "name", Val: cfg.Name},
		{Path: "topic_config.partitions", Key: "partitions", Val: fmt.Sprint(cfg.Partitions)},
		{Path: "topic_config.replication_factor", Key: "replication_factor", Val: fmt.Sprint(cfg.ReplicationFactor)},
		{Path: "topic_config.retention_ms", Key: "retention_ms", Val: fmt.Sprint(cfg.RetentionMs)},
		{Path: "topic_config.retention_bytes", Key: "retention_bytes", Val: fmt.Sprint(cfg.RetentionBytes)},
		{Path: "topic_config.segment_bytes", Key: "segment_bytes", Val: fmt.Sprint(cfg.SegmentBytes)},
		// created_at is a wall-clock reading taken by each store: excluded by name
	}
	keys := make([]string, 0, len(cfg.Config))
	for k := range cfg.Config {
		keys = append(keys, k)
	}
	sort.Strings(keys)
	for _, k := range keys {
		kv = append(kv, c17KV{Path: "topic_config.config", Key: fmt.Sprintf("config[%q]", k), Val: cfg.Config[k]})
	}
	return kv
}

// ---------------------------------------------------------------- operations

type c17Op struct {
	Kind   string
	Topic  string
	Group  string
	Part   int32
	N      int64
	Meta   string
	Names  []string
	RF     int16
	GroupV *metadatapb.ConsumerGroup
	CfgV   *metadatapb.TopicConfig
	NilArg bool
}

func (o c17Op) String() string {
	switch o.Kind {
	case "CreateTopic":
		return fmt.Sprintf("CreateTopic(%q, partitions=%d, rf=%d)", o.Topic, o.N, o.RF)
	case "DeleteTopic":
		return fmt.Sprintf("DeleteTopic(%q)", o.Topic)
	case "CreatePartitions":
		return fmt.Sprintf("CreatePartitions(%q, %d)", o.Topic, o.N)
	case "UpdateOffsets":
		return fmt.Sprintf("UpdateOffsets(%q, %d, last=%d)", o.Topic, o.Part, o.N)
	case "NextOffset":
		return fmt.Sprintf("NextOffset(%q, %d)", o.Topic, o.Part)
	case "CommitConsumerOffset":
		return fmt.Sprintf("CommitConsumerOffset(%q, %q, %d, %d, %q)", o.Group, o.Topic, o.Part, o.N, o.Meta)
	case "FetchConsumerOffset", "LookupConsumerOffset":
		return fmt.Sprintf("%s(%q, %q, %d)", o.Kind, o.Group, o.Topic, o.Part)
	case "PutConsumerGroup":
		if o.NilArg {
			return "PutConsumerGroup(nil)"
		}
		var kv []c17KV
		c17Group(&kv, "g", o.GroupV)
		var s []string
		for _, e := range kv {
			s = append(s, e.Key+"="+e.Val)
		}
		return "PutConsumerGroup{" + strings.Join(s, " ") + "}"
	case "FetchConsumerGroup", "DeleteConsumerGroup":
		return fmt.Sprintf("%s(%q)", o.Kind, o.Group)
	case "FetchTopicConfig":
		return fmt.Sprintf("FetchTopicConfig(%q)", o.Topic)
	case "UpdateTopicConfig":
		if o.NilArg {
			return "UpdateTopicConfig(nil)"
		}
		var s []string
		for _, e := range c17Config(o.CfgV) {
			s = append(s, e.Key+"="+e.Val)
		}
		return "UpdateTopicConfig{" + strings.Join(s, " ") + "}"
	case "Metadata":
		return fmt.Sprintf("Metadata(%q)", o.Names)
	}
	return o.Kind + "()"
}

// c17Apply runs one operation through the Store interface and canonicalises
// everything the caller can see. A panic is an observable result too.
func c17Apply(s Store, o c17Op) (res c17Res) {
	defer func() {
		if p := recover(); p != nil {
			res = c17Res{Err: "panic", Msg: fmt.Sprint(p)}
		}
	}()
	ctx, cancel := context.WithTimeout(context.Background(), 30*time.Second)
	defer cancel()
	set := func(err error) { res.Err, res.Msg = c17ErrClass(err) }
	switch o.Kind {
	case "CreateTopic":
		t, err := s.CreateTopic(ctx, TopicSpec{Name: o.Topic, NumPartitions: int32(o.N), ReplicationFactor: o.RF})
		set(err)
		if t != nil {
			c17Topic(&res.KV, "created", *t)
		} else {
			res.KV = append(res.KV, c17KV{Path: "created.present", Key: "created.present", Val: "false"})
		}
	case "DeleteTopic":
		set(s.DeleteTopic(ctx, o.Topic))
	case "CreatePartitions":
		set(s.CreatePartitions(ctx, o.Topic, int32(o.N)))
	case "UpdateOffsets":
		set(s.UpdateOffsets(ctx, o.Topic, o.Part, o.N))
	case "NextOffset":
		n, err := s.NextOffset(ctx, o.Topic, o.Part)
		set(err)
		res.KV = append(res.KV, c17KV{Path: "next_offset", Key: "next_offset", Val: fmt.Sprint(n)})
	case "CommitConsumerOffset":
		set(s.CommitConsumerOffset(ctx, o.Group, o.Topic, o.Part, o.N, o.Meta))
	case "FetchConsumerOffset":
		off, meta, err := s.FetchConsumerOffset(ctx, o.Group, o.Topic, o.Part)
		set(err)
		res.KV = append(res.KV, c17KV{Path: "offset", Key: "offset", Val: fmt.Sprint(off)}, c17KV{Path: "metadata", Key: "metadata", Val: meta})
	case "LookupConsumerOffset":
		// the optional read interface both stores implement (the group coordinator uses it to tell
		// "no commit" from "committed offset 0")
		l, ok := s.(ConsumerOffsetLookup)
		res.KV = append(res.KV, c17KV{Path: "lookup_implemented", Key: "lookup_implemented", Val: fmt.Sprint(ok)})
		if !ok {
			set(nil)
			break
		}
		off, meta, found, err := l.LookupConsumerOffset(ctx, o.Group, o.Topic, o.Part)
		set(err)
		res.KV = append(res.KV, c17KV{Path: "offset", Key: "offset", Val: fmt.Sprint(off)}, c17KV{Path: "metadata", Key: "metadata", Val: meta},
			c17KV{Path: "found", Key: "found", Val: fmt.Sprint(found)})
	case "ListConsumerOffsets":
		l, err := s.ListConsumerOffsets(ctx)
		set(err)
		count := map[string]int{}
		for _, e := range l {
			k := fmt.Sprintf("entry[%q,%q,%d]", e.Group, e.Topic, e.Partition)
			count[k]++
			if count[k] > 1 {
				k += fmt.Sprintf("#%d", count[k])
			}
			res.KV = append(res.KV, c17KV{Path: "offsets.entry", Key: k, Val: fmt.Sprint(e.Offset), Ent: k, Head: true, Ref: c17Tuple{e.Group, e.Topic, e.Partition}})
		}
	case "PutConsumerGroup":
		var g *metadatapb.ConsumerGroup
		if !o.NilArg {
			g = proto.Clone(o.GroupV).(*metadatapb.ConsumerGroup) // each store gets its own copy of the input
		}
		set(s.PutConsumerGroup(ctx, g))
	case "FetchConsumerGroup":
		g, err := s.FetchConsumerGroup(ctx, o.Group)
		set(err)
		c17Group(&res.KV, "g", g)
	case "ListConsumerGroups":
		l, err := s.ListConsumerGroups(ctx)
		set(err)
		count := map[string]int{}
		for _, g := range l {
			id := "<nil>"
			if g != nil {
				id = g.GroupId
			}
			k := fmt.Sprintf("group[%q]", id)
			count[k]++
			if count[k] > 1 {
				k += fmt.Sprintf("#%d", count[k])
			}
			c17Group(&res.KV, k, g)
		}
	case "DeleteConsumerGroup":
		set(s.DeleteConsumerGroup(ctx, o.Group))
	case "FetchTopicConfig":
		cfg, err := s.FetchTopicConfig(ctx, o.Topic)
		set(err)
		res.KV = c17Config(cfg)
	case "UpdateTopicConfig":
		var cfg *metadatapb.TopicConfig
		if !o.NilArg {
			cfg = proto.Clone(o.CfgV).(*metadatapb.TopicConfig)
		}
		set(s.UpdateTopicConfig(ctx, cfg))
	case "Metadata":
		md, err := s.Metadata(ctx, o.Names)
		set(err)
		res.KV = c17Meta(md)
	default:
		panic("c17: unknown op " + o.Kind)
	}
	return res
}

// ---------------------------------------------------------------- generator

// Topic names: since /repo validates them (CreateTopic accepts only [a-zA-Z0-9._-], 1..249 bytes,
// not "." or ".."), the regular pools hold legal names only, grouped in families whose members are
// string prefixes / near-prefixes of each other (both stores build their keys by concatenating the
// name with a separator, so a prefix-related live sibling is the neighbour a sloppy key range hits).
// Illegal names stay in the odd pool (a quarter of the cases): both stores must reject them alike,
// and an initial snapshot may still carry one.
var (
	c17TopicFamilies = [][]string{
		{"orders", "orders-v2", "orders.v2", "orders2", "orders_"},
		{"a", "ab", "a.b", "a-b", "abc"},
		{"t1", "t10", "t1.x", "t", "T1"},
	}
	c17LooseTopics   = []string{"x", "a.b-c_d", "events", "Z9", "..."}
	c17GroupFamilies = [][]string{
		{"g1", "g10", "g1.x", "g1-", "G1"},
		{"billing", "billing-2", "billing.eu", "bill"},
	}
	c17LooseGroups  = []string{"grp.with-dots_and", "группа", "g2"}
	c17OddTopics    = []string{"a:b", "a/b", " ", "b:c", "Ünï-кодъ", "日本語トピック", ".", ".."}
	c17OddGroups    = []string{"a:b", "a/b", " ", "g1:t1"}
	c17MetaAlphabet = []string{"", "m", "with \"quotes\" and \\ slash", "ユニコード", "line\nbreak", "{\"offset\":7}", "\u0000nul"}
)

// c17Pick chooses k names: two times out of three all from one family (prefix-related), else from
// the union of all families and the loose names.
func c17Pick(rng *rand.Rand, families [][]string, loose []string, k int) []string {
	var pool []string
	if rng.Intn(3) > 0 {
		pool = append(pool, families[rng.Intn(len(families))]...)
	} else {
		for _, f := range families {
			pool = append(pool, f...)
		}
		pool = append(pool, loose...)
	}
	var out []string
	for _, i := range rng.Perm(len(pool)) {
		if len(out) < k {
			out = append(out, pool[i])
		}
	}
	return out
}

// c17Related: one name is a strict string prefix of the other.
func c17Related(a, b string) bool {
	return a != b && (strings.HasPrefix(a, b) || strings.HasPrefix(b, a))
}

type c17Gen struct {
	rng      *rand.Rand
	topics   []string
	groups   []string
	ctr      int64
	odd      bool
	oddTopic string

	// what the history so far has established (only results that BOTH stores accepted are
	// entered, so the model steers the workload and never judges anything)
	live    map[string]int32          // topic -> partition count
	deleted map[string]bool           // topic was deleted at least once
	offs    map[string]map[int32]bool // partitions whose next offset was ever written (any incarnation of the name)
	state   map[string]bool           // live topic holds written state (next offset or stored config) in its current incarnation
	prev    *c17Prev                  // last accepted value of every record (overwrite workload)
}

func (g *c17Gen) wrote(topic string, part int32) {
	if g.offs[topic] == nil {
		g.offs[topic] = map[int32]bool{}
	}
	g.offs[topic][part] = true
}

func (g *c17Gen) parts(topic string, always ...int32) []int32 {
	set := map[int32]bool{}
	for _, p := range always {
		set[p] = true
	}
	for p := range g.offs[topic] {
		set[p] = true
	}
	var out []int32
	for p := range set {
		out = append(out, p)
	}
	sort.Slice(out, func(i, j int) bool { return out[i] < out[j] })
	return out
}

// guided picks an operation that the current state makes meaningful: topics get created, written
// to (next offsets on existing partitions, stored config, commits, growth), deleted once they hold
// state, and re-created under the same name, all on the same pair of store instances.
func (g *c17Gen) guided() c17Op {
	t := g.topic()
	n, live := g.live[t]
	if !live || n <= 0 {
		if t == g.oddTopic && g.rng.Intn(3) > 0 { // mostly leave the (possibly illegal) odd name to the blind draws
			t = g.topics[g.rng.Intn(3)] // the first three names of a case are legal
			if n, live = g.live[t]; live && n > 0 {
				return c17Op{Kind: "UpdateOffsets", Topic: t, Part: int32(g.rng.Intn(int(n))), N: g.next() * 10}
			}
		}
		return c17Op{Kind: "CreateTopic", Topic: t, N: int64(1 + g.rng.Intn(4)), RF: []int16{1, 1, 0, 2}[g.rng.Intn(4)]}
	}
	p := int32(g.rng.Intn(int(n)))
	r := g.rng.Intn(100)
	switch {
	case r < 26:
		return c17Op{Kind: "UpdateOffsets", Topic: t, Part: p, N: g.next() * 10}
	case r < 38:
		return c17Op{Kind: "NextOffset", Topic: t, Part: p}
	case r < 50:
		cfg := g.configValue()
		cfg.Name = t
		return c17Op{Kind: "UpdateTopicConfig", CfgV: cfg}
	case r < 57:
		return c17Op{Kind: "FetchTopicConfig", Topic: t}
	case r < 68:
		return c17Op{Kind: "CommitConsumerOffset", Group: g.group(), Topic: t, Part: p, N: 1000 + g.next(), Meta: g.meta()}
	case r < 76 && n < 12:
		return c17Op{Kind: "CreatePartitions", Topic: t, N: int64(n) + 1 + int64(g.rng.Intn(3))}
	default:
		if g.state[t] || g.rng.Intn(4) == 0 {
			return c17Op{Kind: "DeleteTopic", Topic: t}
		}
		return c17Op{Kind: "UpdateOffsets", Topic: t, Part: p, N: g.next() * 10}
	}
}

func (g *c17Gen) topic() string { return g.topics[g.rng.Intn(len(g.topics))] }
func (g *c17Gen) group() string { return g.groups[g.rng.Intn(len(g.groups))] }
func (g *c17Gen) part() int32 {
	return []int32{0, 0, 1, 1, 2, 3, 7}[g.rng.Intn(7)]
}
func (g *c17Gen) next() int64 { g.ctr++; return g.ctr }

func (g *c17Gen) groupValue() *metadatapb.ConsumerGroup {
	n := g.next()
	states := []string{"empty", "preparing_rebalance", "completing_rebalance", "stable", "dead", ""}
	out := &metadatapb.ConsumerGroup{
		GroupId:      g.group(),
		State:        states[g.rng.Intn(len(states))],
		ProtocolType: []string{"consumer", "", "connect"}[g.rng.Intn(3)],
		Protocol:     []string{"range", "roundrobin", ""}[g.rng.Intn(3)],
		GenerationId: int32(n),
	}
	if g.rng.Intn(6) == 0 {
		out.GenerationId = 0
	}
	if g.rng.Intn(8) == 0 {
		out.GroupId = ""
	}
	if g.rng.Intn(3) > 0 {
		out.RebalanceTimeoutMs = int32(1000 + n)
	}
	nm := g.rng.Intn(4)
	if nm > 0 || g.rng.Intn(2) == 0 {
		out.Members = map[string]*metadatapb.GroupMember{}
	}
	for i := 0; i < nm; i++ {
		id := fmt.Sprintf("%s-member-%d", out.GroupId, g.next())
		m := &metadatapb.GroupMember{ClientId: fmt.Sprintf("client-%d", g.rng.Intn(3)), ClientHost: "/10.0.0." + fmt.Sprint(g.rng.Intn(9))}
		if g.rng.Intn(6) == 0 {
			m.ClientId = ""
		}
		if g.rng.Intn(6) == 0 {
			m.ClientHost = ""
		}
		if g.rng.Intn(3) > 0 {
			m.SessionTimeoutMs = int32(2000 + g.next())
		}
		if g.rng.Intn(2) == 0 {
			m.HeartbeatAt = fmt.Sprintf("2024-01-02T03:04:%02d.%09dZ", g.rng.Intn(60), g.next())
		}
		for k := g.rng.Intn(3); k > 0; k-- {
			m.Subscriptions = append(m.Subscriptions, g.topic())
		}
		for k := g.rng.Intn(3); k > 0; k-- {
			a := &metadatapb.Assignment{Topic: g.topic()}
			for q := g.rng.Intn(3); q > 0; q-- {
				a.Partitions = append(a.Partitions, g.part())
			}
			m.Assignments = append(m.Assignments, a)
		}
		if i == 0 {
			out.Leader = id
		}
		out.Members[id] = m
	}
	return out
}

func (g *c17Gen) configValue() *metadatapb.TopicConfig {
	n := g.next()
	cfg := &metadatapb.TopicConfig{
		Name:              g.topic(),
		Partitions:        []int32{0, 0, 1, 2, 5}[g.rng.Intn(5)],
		ReplicationFactor: int32(g.rng.Intn(3)),
		RetentionMs:       []int64{-1, 0, 60000 + n}[g.rng.Intn(3)],
		RetentionBytes:    []int64{-1, 1 << 20, n}[g.rng.Intn(3)],
		SegmentBytes:      []int64{0, 1 << 16, n}[g.rng.Intn(3)],
	}
	if g.rng.Intn(10) == 0 {
		cfg.Name = ""
	}
	if g.rng.Intn(2) == 0 {
		cfg.CreatedAt = "2020-01-01T00:00:00Z"
	}
	switch g.rng.Intn(3) {
	case 1:
		cfg.Config = map[string]string{}
	case 2:
		cfg.Config = map[string]string{"cleanup.policy": "delete", fmt.Sprintf("k%d", n): fmt.Sprintf("v%d", n)}
	}
	return cfg
}

func (g *c17Gen) op() c17Op {
	r := g.rng.Intn(120)
	switch {
	case r < 20: // one call in six rewrites a record that both stores already hold (c17_overwrite_test.go)
		return g.overwrite()
	case r < 65: // of the others 45% guided, 55% blind, as before
		return g.guided()
	}
	return g.blind()
}

// blind draws an operation without looking at the state (the original workload: many calls hit
// missing topics, missing partitions and invalid arguments).
func (g *c17Gen) blind() c17Op {
	r := g.rng.Intn(100)
	switch {
	case r < 9:
		return c17Op{Kind: "CreateTopic", Topic: g.maybeEmpty(g.topic()), N: []int64{1, 1, 2, 3, 4, 0, -1}[g.rng.Intn(7)], RF: []int16{1, 1, 1, 0, 2, 3, -1}[g.rng.Intn(7)]}
	case r < 14:
		return c17Op{Kind: "DeleteTopic", Topic: g.topic()}
	case r < 21:
		return c17Op{Kind: "CreatePartitions", Topic: g.maybeEmpty(g.topic()), N: []int64{2, 3, 4, 5, 8, 1, 0, -3}[g.rng.Intn(8)]}
	case r < 29:
		return c17Op{Kind: "UpdateOffsets", Topic: g.topic(), Part: g.part(), N: []int64{g.next() * 10, g.next() * 10, g.next() * 10, -1, 0}[g.rng.Intn(5)]}
	case r < 37:
		return c17Op{Kind: "NextOffset", Topic: g.topic(), Part: g.part()}
	case r < 49:
		return c17Op{Kind: "CommitConsumerOffset", Group: g.group(), Topic: g.topic(), Part: g.part(), N: 1000 + g.next(), Meta: g.meta()}
	case r < 55:
		return c17Op{Kind: "FetchConsumerOffset", Group: g.group(), Topic: g.topic(), Part: g.part()}
	case r < 59:
		return c17Op{Kind: "LookupConsumerOffset", Group: g.group(), Topic: g.topic(), Part: g.part()}
	case r < 63:
		return c17Op{Kind: "ListConsumerOffsets"}
	case r < 71:
		if g.rng.Intn(25) == 0 {
			return c17Op{Kind: "PutConsumerGroup", NilArg: true}
		}
		return c17Op{Kind: "PutConsumerGroup", GroupV: g.groupValue()}
	case r < 77:
		return c17Op{Kind: "FetchConsumerGroup", Group: g.group()}
	case r < 80:
		return c17Op{Kind: "ListConsumerGroups"}
	case r < 83:
		return c17Op{Kind: "DeleteConsumerGroup", Group: g.group()}
	case r < 89:
		return c17Op{Kind: "FetchTopicConfig", Topic: g.maybeEmpty(g.topic())}
	case r < 95:
		if g.rng.Intn(25) == 0 {
			return c17Op{Kind: "UpdateTopicConfig", NilArg: true}
		}
		return c17Op{Kind: "UpdateTopicConfig", CfgV: g.configValue()}
	default:
		var names []string
		for k := g.rng.Intn(4); k > 0; k-- {
			names = append(names, g.topic())
		}
		if g.rng.Intn(4) == 0 {
			names = append(names, "no-such-topic")
		}
		return c17Op{Kind: "Metadata", Names: names}
	}
}

func (g *c17Gen) maybeEmpty(s string) string {
	if g.rng.Intn(20) == 0 {
		return ""
	}
	return s
}

func c17Initial(rng *rand.Rand, topics []string) ClusterMetadata {
	nb := 1 + rng.Intn(3)
	md := ClusterMetadata{}
	for i := 0; i < nb; i++ {
		b := protocol.MetadataBroker{NodeID: int32(i*3 + 1), Host: fmt.Sprintf("broker-%d", i), Port: int32(9092 + i)}
		if rng.Intn(3) == 0 {
			b.Rack = kmsg.StringPtr(fmt.Sprintf("rack-%d", i))
		}
		md.Brokers = append(md.Brokers, b)
	}
	md.ControllerID = md.Brokers[rng.Intn(nb)].NodeID
	if rng.Intn(2) == 0 {
		md.ClusterName = kmsg.StringPtr("cluster")
	}
	if rng.Intn(2) == 0 {
		md.ClusterID = kmsg.StringPtr("id-1")
	}
	for i := rng.Intn(3); i > 0; i-- {
		name := topics[rng.Intn(len(topics))]
		dup := false
		for _, t := range md.Topics {
			if *t.Topic == name {
				dup = true
			}
		}
		if dup {
			continue
		}
		t := protocol.MetadataTopic{Topic: kmsg.StringPtr(name)}
		if rng.Intn(2) == 0 {
			t.TopicID = [16]byte{1, 2, 3, byte(i)}
		}
		leader := md.Brokers[0].NodeID
		for p := 0; p < 1+rng.Intn(3); p++ {
			t.Partitions = append(t.Partitions, protocol.MetadataPartition{Partition: int32(p), Leader: leader, Replicas: []int32{leader}, ISR: []int32{leader}})
		}
		md.Topics = append(md.Topics, t)
	}
	return md
}

func c17DescribeInitial(md ClusterMetadata) string {
	var s []string
	for _, e := range c17Meta(&md) {
		s = append(s, e.Key+"="+e.Val)
	}
	return strings.Join(s, " ")
}

// ---------------------------------------------------------------- comparing and naming a divergence

type c17Tuple struct {
	G, T string
	P    int32
}

// c17Hist holds facts about the history that both stores agreed on; they are
// used only to *name* a divergence (never to excuse one).
type c17Hist struct {
	ops            []c17Op
	commitAt       map[c17Tuple]int // index of the last commit both stores accepted
	topicDeletedAt map[string]int   // index of the last DeleteTopic both stores accepted
	cfgUpdatedAt   map[string]int   // last accepted UpdateTopicConfig since the topic was (re)created
	partsGrownAt   map[string]int   // last accepted CreatePartitions since the topic was (re)created
	offsetAt       map[c17Part]int  // index of the last UpdateOffsets both stores accepted
}

type c17Finding struct{ Class, Detail string }

// deletedAfterCommit: the tuple's last commit was followed by a DeleteTopic of its topic.
func (h *c17Hist) deletedAfterCommit(tu c17Tuple) (c17Op, bool) {
	ci, committed := h.commitAt[tu]
	di, deleted := h.topicDeletedAt[tu.T]
	if committed && deleted && di > ci {
		return h.ops[ci], true
	}
	return c17Op{}, false
}

// pathPrefixDeletedAfterCommit: the tuple's topic name contains '/', and after its last commit a
// DeleteTopic of a *different* topic d with tuple.T = d + "/" + rest was accepted.
func (h *c17Hist) pathPrefixDeletedAfterCommit(tu c17Tuple) (c17Op, bool) {
	ci, committed := h.commitAt[tu]
	if !committed {
		return c17Op{}, false
	}
	for d, di := range h.topicDeletedAt {
		if di > ci && d != "" && strings.HasPrefix(tu.T, d+"/") {
			return h.ops[ci], true
		}
	}
	return c17Op{}, false
}

// pathPrefixDeletedAfter: topic contains '/', and after operation index at a DeleteTopic of a
// *different* topic d with topic = d + "/" + rest was accepted.
func (h *c17Hist) pathPrefixDeletedAfter(topic string, at int) bool {
	for d, di := range h.topicDeletedAt {
		if di > at && d != "" && strings.HasPrefix(topic, d+"/") {
			return true
		}
	}
	return false
}

// c17Findings compares the two results of one operation. Every difference
// becomes a finding whose class is computed from the witness: a handful of
// precisely recognised shapes get a descriptive name, everything else is
// "<Kind>:<path>" so that a new way of differing is a new class.
func (h *c17Hist) findings(o c17Op, mem, etcd c17Res) []c17Finding {
	var out []c17Finding
	add := func(class, detail string) { out = append(out, c17Finding{class, detail}) }
	if mem.Err != etcd.Err {
		det := fmt.Sprintf("error: memory=%s(%s) etcd=%s(%s)", mem.Err, mem.Msg, etcd.Err, etcd.Msg)
		if mem.Err != "ok" && etcd.Err != "ok" {
			add(fmt.Sprintf("%s:both_reject_differently:memory=%s,etcd=%s", o.Kind, mem.Err, etcd.Err), det)
		} else {
			add(fmt.Sprintf("%s:error:memory=%s,etcd=%s", o.Kind, mem.Err, etcd.Err), det)
		}
		return out // the payloads of a success and a failure are not comparable
	}
	a, b := map[string]c17KV{}, map[string]c17KV{}
	var keys []string
	for _, e := range mem.KV {
		a[e.Key] = e
		keys = append(keys, e.Key)
	}
	for _, e := range etcd.KV {
		if _, ok := a[e.Key]; !ok {
			keys = append(keys, e.Key)
		}
		b[e.Key] = e
	}
	entHead := func(m map[string]c17KV, ent string) bool { // is the entity present in m?
		for _, e := range m {
			if e.Ent == ent && e.Head {
				return true
			}
		}
		return false
	}
	etcdVal := func(key string) string { return b[key].Val }
	if x, y := a["g.present"], b["g.present"]; o.Kind == "FetchConsumerGroup" && x.Val != y.Val {
		// found by one store only: one finding, not one per field of the group
		add("FetchConsumerGroup:group.present", fmt.Sprintf("g.present: memory=%q etcd=%q", x.Val, y.Val))
		return out
	}
	for _, k := range keys {
		x, okx := a[k]
		y, oky := b[k]
		if okx && oky && x.Val == y.Val {
			continue
		}
		e := x
		if !okx {
			e = y
		}
		side := ""
		if okx && !oky {
			side = "(only_memory)"
		} else if !okx && oky {
			side = "(only_etcd)"
		}
		det := fmt.Sprintf("%s: memory=%s etcd=%s", k, c17Side(x, okx), c17Side(y, oky))
		// a list element that exists on one side only is reported once, through its head fact
		if side != "" && e.Ent != "" && o.Kind != "FetchConsumerGroup" {
			if !e.Head {
				if (side == "(only_memory)" && !entHead(b, e.Ent)) || (side == "(only_etcd)" && !entHead(a, e.Ent)) {
					continue
				}
			} else {
				switch ref := e.Ref.(type) {
				case c17Tuple:
					if _, ok := h.deletedAfterCommit(ref); ok && side == "(only_memory)" {
						add("consumer_offset_kept_by_memory_after_DeleteTopic", det)
						continue
					}
					if side == "(only_memory)" && (strings.Contains(ref.G, "/") || strings.Contains(ref.T, "/")) {
						add("list_offsets_slash_name_missing_in_etcd", det)
						continue
					}
					if side == "(only_etcd)" && (strings.Contains(ref.G, ":") || strings.Contains(ref.T, ":")) {
						add("list_offsets_colon_name_missing_in_memory", det)
						continue
					}
				case string:
					if side == "(only_memory)" && strings.Contains(ref, "/") {
						add("list_groups_slash_id_missing_in_etcd", det)
						continue
					}
				}
				add(o.Kind+":"+e.Path+side, det)
				continue
			}
		}
		switch {
		case side == "" && (e.Path == "group.rebalance_timeout_ms" || e.Path == "group.member.session_timeout_ms") && x.Val == "0" && y.Val != "0":
			add("consumer_group_timeouts_read_back_as_zero_from_memory", det)
		case side == "" && e.Path == "topic_config.replication_factor" && y.Val == etcdVal("partitions"):
			add("topic_config_rf_etcd_reports_partition_count", det)
		case side == "" && e.Path == "topic_config.partitions" && h.staleAfterGrowth(o.Topic, x.Val):
			add("topic_config_partitions_stale_in_etcd_after_CreatePartitions", det)
		case o.Kind == "NextOffset" && side == "" && e.Path == "next_offset" && h.nextOffsetWipedByPathPrefixDelete(o, x.Val, y.Val):
			add("next_offset_of_slash_topic_wiped_by_etcd_DeleteTopic_of_its_path_prefix", det)
		case o.Kind == "FetchTopicConfig" && h.configWipedByPathPrefixDelete(o, e, side, x.Val, y.Val):
			add("topic_config_of_slash_topic_wiped_by_etcd_DeleteTopic_of_its_path_prefix", det)
		case side == "" && (o.Kind == "FetchConsumerOffset" || o.Kind == "LookupConsumerOffset") && (e.Path == "offset" || e.Path == "metadata" || e.Path == "found"):
			// memory still answers exactly the last commit, etcd answers "nothing committed"
			// ("found" exists only in LookupConsumerOffset results)
			kept := func(c c17Op) bool {
				return (e.Path == "offset" && x.Val == fmt.Sprint(c.N) && y.Val == "0") || (e.Path == "metadata" && x.Val == c.Meta && y.Val == "") ||
					(e.Path == "found" && x.Val == "true" && y.Val == "false")
			}
			if c, ok := h.deletedAfterCommit(c17Tuple{o.Group, o.Topic, o.Part}); ok && kept(c) {
				add("consumer_offset_kept_by_memory_after_DeleteTopic", det)
			} else if c, ok := h.pathPrefixDeletedAfterCommit(c17Tuple{o.Group, o.Topic, o.Part}); ok && kept(c) {
				add("consumer_offset_of_slash_topic_wiped_by_etcd_DeleteTopic_of_its_path_prefix", det)
			} else {
				add(o.Kind+":"+e.Path, det)
			}
		default:
			add(o.Kind+":"+e.Path+side, det)
		}
	}
	return out
}

// nextOffsetWipedByPathPrefixDelete: the topic name contains '/', after the last accepted
// UpdateOffsets of the partition a DeleteTopic of the name's path prefix was accepted, memory
// answers exactly that write and etcd answers "never written".
func (h *c17Hist) nextOffsetWipedByPathPrefixDelete(o c17Op, memVal, etcdVal string) bool {
	wi, ok := h.offsetAt[c17Part{o.Topic, o.Part}]
	return ok && h.pathPrefixDeletedAfter(o.Topic, wi) && memVal == fmt.Sprint(h.ops[wi].N+1) && etcdVal == "0"
}

// configWipedByPathPrefixDelete: the topic name contains '/', after the last accepted
// UpdateTopicConfig of the topic a DeleteTopic of the name's path prefix was accepted, memory
// answers exactly what that update stored and etcd answers the default it derives from the snapshot.
func (h *c17Hist) configWipedByPathPrefixDelete(o c17Op, e c17KV, side, memVal, etcdVal string) bool {
	ui, ok := h.cfgUpdatedAt[o.Topic]
	if !ok || !h.pathPrefixDeletedAfter(o.Topic, ui) {
		return false
	}
	stored := ""
	for _, w := range c17Config(h.ops[ui].CfgV) {
		if w.Key == e.Key {
			stored = w.Val
		}
	}
	switch {
	case side == "(only_memory)" && e.Path == "topic_config.config":
		return memVal == stored
	case side != "":
		return false
	case e.Path == "topic_config.retention_ms" || e.Path == "topic_config.retention_bytes":
		return memVal == stored && etcdVal == "-1"
	case e.Path == "topic_config.segment_bytes":
		return memVal == stored && etcdVal == "0"
	case e.Path == "topic_config.partitions": // an explicit count was stored; the default reports the real one
		return memVal == stored && stored != "0"
	}
	return false
}

// staleAfterGrowth: an accepted CreatePartitions(topic, n) came after an accepted
// UpdateTopicConfig for the topic, and memory now reports exactly n.
func (h *c17Hist) staleAfterGrowth(topic, memVal string) bool {
	ui, u := h.cfgUpdatedAt[topic]
	gi, g := h.partsGrownAt[topic]
	return u && g && gi > ui && memVal == fmt.Sprint(h.ops[gi].N)
}

func c17Side(e c17KV, ok bool) string {
	if !ok {
		return "<absent>"
	}
	return fmt.Sprintf("%q", e.Val)
}

// ---------------------------------------------------------------- the leg

const c17Workers = 4

func TestVerifC17Diff(t *testing.T) {
	r := verifkit.Start(t, "C17", "diff")
	defer r.Finish("identical PRNG operation sequences through the Store interface on a fresh InMemoryStore and a fresh EtcdStore (embedded etcd, empty keyspace, assembled like NewEtcdStore - every field the real constructor initialises is initialised the same way - with observable KV/Watcher so the harness can wait until the store has finished reacting to its own snapshot writes); 3 topic names and 2-3 group ids per case, two times out of three drawn from one family of legal names that are string prefixes or near-prefixes of each other (orders/orders-v2/orders.v2/orders2, a/ab/a.b/a-b, t/t1/t10/t1.x, g1/g10/g1.x, bill/billing/billing-2), a quarter of the cases add one illegal or odd name; one operation in six is an OVERWRITE of a record that both stores already hold - a committed consumer offset with its metadata string, a consumer-group record (same group id, same member ids), a topic config with its config map, the next offset of a partition - whose new value is derived from the held one: every field that held a non-zero value goes to its zero value (empty string, 0, -1, nil or empty list/map, member / assignment / config key removed) half of the time, every field that held a zero value gets a fresh non-zero value 7 times out of 10 (first writes also carry zero values: a quarter of the commits have no metadata); of the other operations 45% are state-guided (create a missing topic, write next offsets / config / commits to existing partitions, grow, delete a topic that holds state, re-create it under the same name on the same store instances), the rest are drawn blindly (missing topics, invalid and nil arguments); after every operation the two canonicalised results (error sentinel class, every returned field except the wall-clock created_at, list results as sets, Metadata topic order as returned) must be equal; every write of such a record that both stores accepted is followed at once by the reads of exactly that record (FetchConsumerOffset and LookupConsumerOffset - offset, metadata, found - / FetchConsumerGroup / FetchTopicConfig / NextOffset) and, one time in three after an overwrite, by the list operation covering it, so that a later write cannot hide what this one left behind; after every accepted CreateTopic/DeleteTopic the next offset of every partition ever written and the config of every topic holding state are read back for ALL names of the case; at the end a full read-back of every name, partition, tuple and group used; non-trivial = a case in which both stores accepted at least one topic mutation, one consumer-offset commit and one group put and in which at least 10 results carried data; floors: a quarter of the cases must read a next offset of a re-created name whose earlier incarnation had written it, an eighth must delete a topic beside a live prefix-related topic that holds state, and per record kind (commit, group, config, next offset) a fifth of the cases must read back a record in which a field went from non-zero to zero and a sixth (next offset: a twelfth) one in which a field went from zero to non-zero",
		"names and strings are valid UTF-8 (proto3/JSON encoders reject or rewrite other bytes)",
		"sequential callers; each call starts after the etcd store has processed its own earlier snapshot writes (the pending-refresh hazard belongs to C21)",
		"wall-clock fields (TopicConfig.created_at, the etcd record's committed_at) are excluded by name; caller-supplied heartbeat_at is data and is compared",
		"each harness worker talks to the shared embedded etcd through an etcd client namespace (transparent key prefix)")
	endpoints := vEtcd(t)
	admin, err := clientv3.New(clientv3.Config{Endpoints: endpoints, DialTimeout: 5 * time.Second})
	if err != nil {
		t.Fatalf("etcd admin client: %v", err)
	}
	defer admin.Close()

	n := r.N(200, 3000)
	var wg sync.WaitGroup
	for w := 0; w < c17Workers; w++ {
		wg.Add(1)
		go func(w int) {
			defer wg.Done()
			for ci := w; ci < n; ci += c17Workers {
				c17Case(r, admin, endpoints, fmt.Sprintf("c17w%d/", w), ci)
			}
		}(w)
	}
	wg.Wait()
	r.Floor("ops_compared", int64(n)*10)
	r.Floor("cases_all_kinds_accepted", int64(n)/4)
	r.Floor("cases_reading_next_offset_after_recreate", int64(n)/4)
	r.Floor("cases_deleting_beside_prefix_related_topic", int64(n)/8)
	for _, kind := range []string{"commit", "group", "config", "next_offset"} {
		r.Floor("cases_reading_zero_after_nonzero."+kind, int64(n)/5)
	}
	for _, kind := range []string{"commit", "group", "config"} {
		r.Floor("cases_reading_nonzero_after_zero."+kind, int64(n)/6)
	}
	r.Floor("cases_reading_nonzero_after_zero.next_offset", int64(n)/12)
}

// c17Infra: the embedded etcd (not the store) failed — deadline of the store's own 3 s/5 s
// per-call timeouts under machine load, or an etcdserver/gRPC error. Such a case decides
// nothing and is re-run from scratch.
func c17Infra(res c17Res) bool {
	return res.Err == "context.DeadlineExceeded" || res.Err == "context.Canceled" || res.Err == "etcd_rpc_error"
}

func c17Case(r *verifkit.Run, admin *clientv3.Client, endpoints []string, ns string, ci int) {
	const attempts = 4
	for a := 1; a <= attempts; a++ {
		done, why := c17Attempt(r, admin, endpoints, ns, ci)
		if done {
			return
		}
		r.Count("case_attempts_discarded_for_etcd_timeouts", 1)
		if a == attempts {
			r.Inconclusive(fmt.Sprintf("case %d: discarded %d times: %s", ci, attempts, why))
		}
	}
}

type c17Pending struct {
	counts map[string]int64
	seen   map[string]map[string]bool
	viols  []struct {
		class, summary string
		replay         any
	}
}

func (p *c17Pending) count(name string, n int64) { p.counts[name] += n }
func (p *c17Pending) see(set, member string) {
	if p.seen[set] == nil {
		p.seen[set] = map[string]bool{}
	}
	p.seen[set][member] = true
}

func c17Attempt(r *verifkit.Run, admin *clientv3.Client, endpoints []string, ns string, ci int) (bool, string) {
	rng := r.Rand(ci)
	gen := &c17Gen{rng: rng, live: map[string]int32{}, deleted: map[string]bool{}, offs: map[string]map[int32]bool{}, state: map[string]bool{}, prev: c17NewPrev()}
	gen.odd = rng.Intn(4) == 0
	gen.topics = c17Pick(rng, c17TopicFamilies, c17LooseTopics, 3)
	gen.groups = c17Pick(rng, c17GroupFamilies, c17LooseGroups, 2+rng.Intn(2))
	if gen.odd {
		gen.oddTopic = c17OddTopics[rng.Intn(len(c17OddTopics))]
		gen.topics = append(gen.topics, gen.oddTopic)
		gen.groups = append(gen.groups, c17OddGroups[rng.Intn(len(c17OddGroups))])
	}
	initial := c17Initial(rng, gen.topics)

	if err := vWipe(admin, ns); err != nil {
		return false, fmt.Sprintf("cannot empty the etcd namespace: %v", err)
	}
	mem := NewInMemoryStore(initial)
	es, err := vNewEtcdStore(context.Background(), endpoints, ns, initial)
	if err != nil {
		return false, fmt.Sprintf("etcd store: %v", err)
	}
	defer es.Shutdown()

	h := &c17Hist{commitAt: map[c17Tuple]int{}, topicDeletedAt: map[string]int{}, cfgUpdatedAt: map[string]int{}, partsGrownAt: map[string]int{}, offsetAt: map[c17Part]int{}}
	pend := &c17Pending{counts: map[string]int64{}, seen: map[string]map[string]bool{}}
	nops := 18 + rng.Intn(54) // a sixth of the calls are overwrites, the rest as many as before
	var trace []string
	withData, topicMut, commits, puts := 0, 0, 0, 0
	tuples := map[c17Tuple]bool{}
	classesSeen := map[string]bool{}
	abort := ""
	for _, t := range initial.Topics {
		gen.live[*t.Topic] = int32(len(t.Partitions))
	}
	lifecycle := ""                        // topic of the last accepted CreateTopic/DeleteTopic not yet followed by a probe
	curOffs := map[string]map[int32]bool{} // partitions of a live topic whose next offset was written in its current incarnation
	stale := map[string]map[int32]bool{}   // partitions written in an earlier, deleted incarnation of the name and not written since
	recreatedRead, siblingDeletes := 0, 0
	var written *c17Overwrite // the last accepted write of a record, not yet read back
	zeroed, filled := map[string]bool{}, map[string]bool{}

	step := func(o c17Op) bool {
		if !es.Quiesce() {
			abort = "watchdog while waiting for the etcd store to process its own snapshot writes"
			return false
		}
		a := c17Apply(mem, o)
		b := c17Apply(es.EtcdStore, o)
		if c17Infra(b) {
			abort = fmt.Sprintf("%s on the etcd store: %s (%s)", o, b.Err, b.Msg)
			return false
		}
		idx := len(h.ops)
		h.ops = append(h.ops, o)
		trace = append(trace, fmt.Sprintf("%d: %s -> memory %s / etcd %s", idx, o, a.Err, b.Err))
		pend.count("ops_compared", 1)
		pend.count("op."+o.Kind, 1)
		if a.Err == "ok" && b.Err == "ok" {
			pend.count("ops_both_ok", 1)
			if len(a.KV) > 0 {
				withData++
			}
		} else if a.Err == b.Err {
			pend.count("ops_both_"+a.Err, 1)
		}
		for _, f := range h.findings(o, a, b) {
			pend.count("differences", 1)
			if classesSeen[f.Class] { // one report per class and case: the same state difference is re-read many times
				continue
			}
			classesSeen[f.Class] = true
			pend.viols = append(pend.viols, struct {
				class, summary string
				replay         any
			}{f.Class, fmt.Sprintf("%s answered differently: %s", o, f.Detail),
				map[string]any{"case": ci, "initial": c17DescribeInitial(initial), "ops": append([]string{}, trace...), "difference": f.Detail}})
		}
		if a.Err == "ok" && b.Err == "ok" {
			if w := gen.noteWrite(o); w != nil {
				written = w
			}
			switch o.Kind {
			case "DeleteConsumerGroup":
				delete(gen.prev.group, o.Group)
			case "CommitConsumerOffset":
				tu := c17Tuple{o.Group, o.Topic, o.Part}
				h.commitAt[tu] = idx
				tuples[tu] = true
				commits++
			case "DeleteTopic":
				h.topicDeletedAt[o.Topic] = idx
				delete(h.cfgUpdatedAt, o.Topic)
				delete(h.partsGrownAt, o.Topic)
				topicMut++
				for u := range gen.live {
					if c17Related(u, o.Topic) && gen.state[u] {
						siblingDeletes++
						pend.count("deletes_beside_live_prefix_related_topic_holding_state", 1)
						break
					}
				}
				delete(gen.live, o.Topic)
				delete(gen.state, o.Topic)
				gen.prev.forgetTopic(o.Topic)
				gen.deleted[o.Topic] = true
				for p := range curOffs[o.Topic] {
					if stale[o.Topic] == nil {
						stale[o.Topic] = map[int32]bool{}
					}
					stale[o.Topic][p] = true
				}
				delete(curOffs, o.Topic)
				lifecycle = o.Topic
			case "CreateTopic":
				topicMut++
				gen.live[o.Topic] = int32(o.N)
				if gen.deleted[o.Topic] {
					pend.count("topics_recreated_after_delete", 1)
				}
				lifecycle = o.Topic
			case "CreatePartitions":
				h.partsGrownAt[o.Topic] = idx
				topicMut++
				gen.live[o.Topic] = int32(o.N)
			case "UpdateTopicConfig":
				if o.NilArg {
					break
				}
				h.cfgUpdatedAt[o.CfgV.Name] = idx
				if _, live := gen.live[o.CfgV.Name]; live {
					gen.state[o.CfgV.Name] = true
				}
			case "UpdateOffsets":
				h.offsetAt[c17Part{o.Topic, o.Part}] = idx
				gen.wrote(o.Topic, o.Part)
				if n, live := gen.live[o.Topic]; live && o.Part < n {
					gen.state[o.Topic] = true
					if curOffs[o.Topic] == nil {
						curOffs[o.Topic] = map[int32]bool{}
					}
					curOffs[o.Topic][o.Part] = true
				}
				delete(stale[o.Topic], o.Part) // a fresh write replaces whatever the earlier incarnation left
			case "NextOffset":
				if stale[o.Topic][o.Part] {
					recreatedRead++
					pend.count("next_offset_reads_after_recreate_of_a_name_with_earlier_offsets", 1)
				}
			case "PutConsumerGroup":
				puts++
			}
		}
		return true
	}

	// probe: after every accepted topic creation or deletion, the per-topic state a caller can read
	// is compared for ALL topic names of the case, not only for the one that was created or deleted:
	// the next offset of every partition ever written under a name, and the topic config of the
	// subject and of every live topic that holds written state.
	probe := func() bool {
		subject := lifecycle
		lifecycle = ""
		for _, tn := range gen.topics {
			for _, p := range gen.parts(tn) {
				if !step(c17Op{Kind: "NextOffset", Topic: tn, Part: p}) {
					return false
				}
			}
			if tn == subject || gen.state[tn] {
				if !step(c17Op{Kind: "FetchTopicConfig", Topic: tn}) {
					return false
				}
			}
		}
		pend.count("lifecycle_probes", 1)
		return true
	}

	// readBack: every write of a record that both stores accepted is followed at once by the reads
	// of exactly that record (a later write would hide what this one left behind), and one time in
	// three, when it replaced an earlier value, by the list operation that covers the record.
	readBack := func() bool {
		w := written
		written = nil
		for _, rd := range w.reads {
			if !step(rd) {
				return false
			}
		}
		pend.count("writes_read_back."+w.kind, 1)
		if !w.over {
			return true
		}
		pend.count("overwrites_read_back."+w.kind, 1)
		for _, p := range w.toZero {
			zeroed[w.kind] = true
			pend.count("fields_zero_after_nonzero."+w.kind, 1)
			pend.count("zero_after_nonzero:"+w.kind+":"+p, 1)
			pend.see("field_zero_after_nonzero", w.kind+":"+p)
		}
		for _, p := range w.fromZero {
			filled[w.kind] = true
			pend.count("fields_nonzero_after_zero."+w.kind, 1)
			pend.count("nonzero_after_zero:"+w.kind+":"+p, 1)
			pend.see("field_nonzero_after_zero", w.kind+":"+p)
		}
		if w.list != "" && rng.Intn(3) == 0 {
			return step(c17Op{Kind: w.list})
		}
		return true
	}

	ok := true
	for i := 0; i < nops && ok; i++ {
		o := gen.op()
		if o.Kind == "FetchConsumerOffset" || o.Kind == "LookupConsumerOffset" {
			tuples[c17Tuple{o.Group, o.Topic, o.Part}] = true
		}
		written = nil
		ok = step(o)
		if ok && written != nil {
			ok = readBack()
		}
		if ok && lifecycle != "" {
			ok = probe()
		}
	}
	// full read-back
	if ok {
		ok = step(c17Op{Kind: "Metadata"}) && step(c17Op{Kind: "ListConsumerOffsets"}) && step(c17Op{Kind: "ListConsumerGroups"})
		for _, tn := range gen.topics {
			ok = ok && step(c17Op{Kind: "FetchTopicConfig", Topic: tn}) && step(c17Op{Kind: "Metadata", Names: []string{tn}})
			for _, p := range gen.parts(tn, 0, 1, 3) {
				ok = ok && step(c17Op{Kind: "NextOffset", Topic: tn, Part: p})
			}
		}
		for _, g := range gen.groups {
			ok = ok && step(c17Op{Kind: "FetchConsumerGroup", Group: g})
		}
		var tl []c17Tuple
		for tu := range tuples {
			tl = append(tl, tu)
		}
		sort.Slice(tl, func(i, j int) bool { return fmt.Sprint(tl[i]) < fmt.Sprint(tl[j]) })
		for _, tu := range tl {
			ok = ok && step(c17Op{Kind: "FetchConsumerOffset", Group: tu.G, Topic: tu.T, Part: tu.P}) &&
				step(c17Op{Kind: "LookupConsumerOffset", Group: tu.G, Topic: tu.T, Part: tu.P})
		}
	}
	if !ok {
		return false, abort
	}
	for k, v := range pend.counts {
		r.Count(k, v)
	}
	for set, ms := range pend.seen {
		for m := range ms {
			r.Seen(set, m)
		}
	}
	for _, kind := range []string{"commit", "group", "config", "next_offset"} {
		if zeroed[kind] {
			r.Count("cases_reading_zero_after_nonzero."+kind, 1)
		}
		if filled[kind] {
			r.Count("cases_reading_nonzero_after_zero."+kind, 1)
		}
	}
	for _, v := range pend.viols {
		r.Violation(v.class, v.summary, v.replay)
	}
	all := topicMut > 0 && commits > 0 && puts > 0
	if all {
		r.Count("cases_all_kinds_accepted", 1)
	}
	if gen.odd {
		r.Count("cases_with_odd_names", 1)
	}
	if recreatedRead > 0 {
		r.Count("cases_reading_next_offset_after_recreate", 1)
	}
	if siblingDeletes > 0 {
		r.Count("cases_deleting_beside_prefix_related_topic", 1)
	}
	r.Case(verifkit.Hash(trace), all && withData >= 10)
	if ci < 2 {
		r.Sample(map[string]any{"initial": c17DescribeInitial(initial), "ops": trace})
	}
	return true, ""
}
