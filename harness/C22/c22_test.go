//go:build verif

package main

// C22 — different topics never share storage or metadata keys.
//
// Observation based (DESIGN.md §4 C22): topics with hostile names are created /
// auto-created through the REAL handler (CreateTopics, Produce, Metadata, Fetch,
// ListOffsets), every accepted topic gets a uniquely tagged workload (produce to
// partitions 0 and 1, consumer-offset commit, config update, sometimes a
// DeleteTopics, broker restarts in between) and three monitors watch:
//
//	(a) the S3 object keys each topic's operations actually wrote / listed / read
//	    (event log of the recording fake S3),
//	(b) the observable state of every live topic after EVERY operation (next
//	    offsets, full read-back of both partitions, committed offsets, config)
//	    against what the topic's OWN operations imply,
//	(c) on the EtcdStore leg, the etcd keys each topic's operations touched (a
//	    watch on the key prefix, delimited by sentinel writes).
//
// A deviation of (b) is only charged to C22 when a control run of the SAME
// operations of that topic alone (no other topic in the world) shows no
// deviation: then the other topics caused it.

import (
	"context"
	"encoding/json"
	"fmt"
	"hash/fnv"
	"math/rand"
	"os"
	"sort"
	"strconv"
	"strings"
	"testing"
	"time"
	"unicode/utf8"

	"github.com/KafScale/platform/internal/testutil"
	"github.com/KafScale/platform/internal/verifkit"
	"github.com/KafScale/platform/internal/verifkit/kbatch"
	"github.com/KafScale/platform/pkg/broker"
	"github.com/KafScale/platform/pkg/cache"
	"github.com/KafScale/platform/pkg/metadata"
	"github.com/KafScale/platform/pkg/protocol"
	"github.com/KafScale/platform/pkg/storage"
	"github.com/twmb/franz-go/pkg/kmsg"
	clientv3 "go.etcd.io/etcd/client/v3"
)

const c22Rule = "topics with hostile names (path separators, '.'/'..' segments, doubled/leading/trailing slashes, names equal to another topic's partition directory or etcd sub-path, ':' and '/offsets/' joins, %-escapes, blanks, unicode, control characters, case variants, 249/250/300-character names, empty) are created or auto-created through the real handler (CreateTopics, Produce, Metadata, Fetch, ListOffsets); acceptance = the name is listed by a Metadata(all) request afterwards with the expected partition count. A quarter of the generated InMemoryStore cases, half of the generated EtcdStore cases and four fixed families per store are DIGIT FAMILIES of legal names: one base name x with x+digits, x+sep+digits, digits+x, digits+sep+x, x+sep, x+digits+digits (sep one of - . _), created with 1-3 or 11-25 partitions (auto-created ones get the broker's auto-create count, 11-25 in these cases), and their workload partitions (up to 4 per topic) are chosen so that name and partition number of two DIFFERENT topics read the same when written next to each other (\"t1\"+\"0\" = \"t\"+\"10\", \"1\"+\"1a\" = \"11\"+\"a\") or so that one topic's name reads like another topic's partition (\"ev-1\" / partition 1 of \"ev\"); both pairs are used on the same broker handler, first-touch order varying with the interleaving and the restarts. Every accepted topic gets uniquely tagged produce batches on each of its workload partitions (0 and 1 outside the families), an OffsetCommit per workload partition (joined group through the handler, falling back to the store call the coordinator makes), an AlterConfigs, sometimes a DeleteTopics, with broker restarts (new handler over the same object store and metadata store) in between. Oracle, for every pair of accepted distinct names: (1) the S3 keys their operations wrote are disjoint and so are the partition directories they list and write into; (2) no key written by one lies under a partition directory (list prefix / directory of a written key) of the other; (3) likewise for the etcd keys touched (cluster-level snapshot key and per-group keys excluded); (4) after every single operation the observable state of every live topic (ListOffsets latest and full Fetch read-back by record tag of every workload partition, OffsetFetch, DescribeConfigs) equals what its own operations imply, and a deviation is reported only if a control run of that topic's operations alone shows none; (5) an accepted name that contains '/' or a '.'/'..' segment is itself a violation (the statement demands rejection). A rejected name is always fine. distinct = (store kind, name shapes, creation paths); non-trivial = at least two accepted topics whose full workload ran and whose keys were compared"

var c22Broker = protocol.MetadataBroker{NodeID: 1, Host: "127.0.0.1", Port: 9092}

// ---------------------------------------------------------------- names

func c22Long(seed string, n int) string {
	s := seed
	for len(s) < n {
		s += "x"
	}
	return s[:n]
}

type c22Xf struct {
	group string // unsafe | sep | odd | safe
	f     func(x, y, ns string) string
}

var c22Xfs = []c22Xf{
	// names that path.Join rewrites or that nest inside another topic's directory
	{"unsafe", func(x, y, ns string) string { return x + "/" }},
	{"unsafe", func(x, y, ns string) string { return "/" + x }},
	{"unsafe", func(x, y, ns string) string { return "./" + x }},
	{"unsafe", func(x, y, ns string) string { return x + "/." }},
	{"unsafe", func(x, y, ns string) string { return y + "/../" + x }},
	{"unsafe", func(x, y, ns string) string { return "../" + ns + "/" + x }},
	{"unsafe", func(x, y, ns string) string { return "../" + x }},
	{"unsafe", func(x, y, ns string) string { return x + "/.." }},
	{"unsafe", func(x, y, ns string) string { return x + "//" + y }},
	{"unsafe", func(x, y, ns string) string { return x + "/./" + y }},
	{"unsafe", func(x, y, ns string) string { return x + "/" + y }},
	{"unsafe", func(x, y, ns string) string { return x + "/0" }},
	{"unsafe", func(x, y, ns string) string { return x + "/1" }},
	{"unsafe", func(x, y, ns string) string { return x + "/0/" + y }},
	{"unsafe", func(x, y, ns string) string { return x + "/partitions/0" }},
	{"unsafe", func(x, y, ns string) string { return x + "/partitions/1" }},
	{"unsafe", func(x, y, ns string) string { return x + "/partitions" }},
	{"unsafe", func(x, y, ns string) string { return x + "/config" }},
	{"unsafe", func(x, y, ns string) string { return x + "/offsets/" + y }},
	{"unsafe", func(x, y, ns string) string { return "." }},
	{"unsafe", func(x, y, ns string) string { return ".." }},
	{"unsafe", func(x, y, ns string) string { return "/" }},
	{"unsafe", func(x, y, ns string) string { return "./." }},
	// separators of the in-memory key formats
	{"sep", func(x, y, ns string) string { return x + ":" + y }},
	{"sep", func(x, y, ns string) string { return x + ":0" }},
	{"sep", func(x, y, ns string) string { return x + ":1" }},
	{"sep", func(x, y, ns string) string { return x + ":" }},
	{"sep", func(x, y, ns string) string { return ":" + x }},
	{"sep", func(x, y, ns string) string { return x + "::" + y }},
	// other characters Kafka does not allow
	{"odd", func(x, y, ns string) string { return x + "%2F" + y }},
	{"odd", func(x, y, ns string) string { return x + "%2f..%2f" + y }},
	{"odd", func(x, y, ns string) string { return x + " " }},
	{"odd", func(x, y, ns string) string { return " " + x }},
	{"odd", func(x, y, ns string) string { return " " }},
	{"odd", func(x, y, ns string) string { return x + " " + y }},
	{"odd", func(x, y, ns string) string { return x + "é" }},
	{"odd", func(x, y, ns string) string { return "тема-" + x }},
	{"odd", func(x, y, ns string) string { return "主题" }},
	{"odd", func(x, y, ns string) string { return x + "\x00" }},
	{"odd", func(x, y, ns string) string { return x + "\n" + y }},
	{"odd", func(x, y, ns string) string { return x + "\\" + y }},
	{"odd", func(x, y, ns string) string { return x + "*" }},
	{"odd", func(x, y, ns string) string { return x + "#" + y }},
	{"odd", func(x, y, ns string) string { return "" }},
	{"odd", func(x, y, ns string) string { return c22Long(x, 250) }},
	{"odd", func(x, y, ns string) string { return c22Long(x, 300) }},
	// legal Kafka names that are close to each other
	{"safe", func(x, y, ns string) string { return y }},
	{"safe", func(x, y, ns string) string { return strings.ToUpper(x) }},
	{"safe", func(x, y, ns string) string { return strings.ToLower(x) }},
	{"safe", func(x, y, ns string) string { return x + "." + y }},
	{"safe", func(x, y, ns string) string { return x + "_" + y }},
	{"safe", func(x, y, ns string) string { return x + "-" + y }},
	{"safe", func(x, y, ns string) string { return x + "2" }},
	{"safe", func(x, y, ns string) string { return x + "0" }},
	{"safe", func(x, y, ns string) string { return x + x }},
	{"safe", func(x, y, ns string) string { return "..." }},
	{"safe", func(x, y, ns string) string { return ".." + x }},
	{"safe", func(x, y, ns string) string { return x + ".." }},
	{"safe", func(x, y, ns string) string { return x + ".0" }},
	{"safe", func(x, y, ns string) string { return c22Long(x, 249) }},
	{"safe", func(x, y, ns string) string { return c22Long(x, 248) + "y" }},
	{"safe", func(x, y, ns string) string { return c22Long(x, 200) }},
}

var c22Bases = []string{"a", "b", "t", "T", "orders", "0", "x1", "Ab"}

// c22Shape labels a name for the evidence (and for the class of rule (5)).
func c22Shape(name string) string {
	if name == "" {
		return "empty"
	}
	if strings.Contains(name, "/") || name == "." || name == ".." {
		return c22UnsafeKind(name)
	}
	switch {
	case strings.Contains(name, ":"):
		return "colon"
	case strings.Contains(name, "%"):
		return "percent"
	case strings.TrimSpace(name) != name || strings.Contains(name, " "):
		return "blank"
	case strings.ContainsAny(name, "\x00\n"):
		return "control"
	case len(name) > 249:
		return "too_long"
	}
	for _, c := range name {
		if !(c >= 'a' && c <= 'z' || c >= 'A' && c <= 'Z' || c >= '0' && c <= '9' || c == '.' || c == '_' || c == '-') {
			if c > 127 {
				return "unicode"
			}
			return "other_char"
		}
	}
	if len(name) >= 200 {
		return "safe_long"
	}
	return "safe"
}

// c22UnsafeKind: "" for a name without path separator / dot segment, else which
// rule of path.Clean (or plain nesting) applies to it.
func c22UnsafeKind(name string) string {
	if !strings.Contains(name, "/") && name != "." && name != ".." {
		return ""
	}
	segs := strings.Split(name, "/")
	kind := "slash"
	for _, s := range segs {
		switch s {
		case "..":
			return "dotdot_segment"
		case ".":
			kind = "dot_segment"
		case "":
			if kind == "slash" {
				kind = "empty_segment"
			}
		}
	}
	return kind
}

// ---------------------------------------------------------------- case description

type c22TopicSpec struct {
	Name  string `json:"name"`
	Via   string `json:"via"`
	Group string `json:"group"`
	// NP: partition count the topic is expected to have (CreateTopics asks for it; an auto-created
	// topic gets the broker's auto-create count). Parts: the partitions the workload and the probes use.
	NP    int32   `json:"partitions"`
	Parts []int32 `json:"workload_partitions"`
}

// c22Pair: two (topic, partition) pairs of a case that were chosen because their
// names and numbers read the same once written next to each other (How says in which way).
type c22Pair struct {
	A   int    `json:"a"`
	PA  int32  `json:"pa"`
	B   int    `json:"b"`
	PB  int32  `json:"pb"`
	How string `json:"how"`
}

type c22Case struct {
	Specs     []c22TopicSpec
	Steps     []c22Step
	AutoParts int32 // partition count of auto-created topics in this case's world
	Family    bool
	Pairs     []c22Pair
}

type c22Step struct {
	Kind string `json:"kind"` // create | produce | commit | alter | delete | restart
	T    int    `json:"t"`
	P    int32  `json:"p,omitempty"`
	N    int    `json:"n,omitempty"`
	Off  int64  `json:"off,omitempty"`
	Val  string `json:"val,omitempty"`
	Seq  int    `json:"seq,omitempty"`
}

func (s c22Step) String() string {
	switch s.Kind {
	case "create":
		return fmt.Sprintf("create(t%d)", s.T)
	case "produce":
		return fmt.Sprintf("produce(t%d,p%d,n=%d,#%d)", s.T, s.P, s.N, s.Seq)
	case "commit":
		return fmt.Sprintf("commit(t%d,p%d,off=%d)", s.T, s.P, s.Off)
	case "alter":
		return fmt.Sprintf("alter(t%d,retention.ms=%s)", s.T, s.Val)
	case "delete":
		return fmt.Sprintf("delete(t%d)", s.T)
	}
	return s.Kind
}

var c22Vias = []string{"create_topics", "produce", "metadata", "fetch", "listoffsets"}

// c22Templates: fixed name families that open every run (one case each, with
// PRNG-chosen creation paths and operation order), so that every mechanism
// DESIGN.md §5 predicts - and its legal-name counterpart - is exercised at
// every seed. del: the topic deleted once everything else has run.
type c22Template struct {
	kinds  string // mem | etcd | both
	names  []string
	groups []string
	del    int
	// np != nil: a family of legal names that differ by leading / trailing digits and
	// separators, with the partition count CreateTopics asks for per name; the workload
	// partitions are then planned by c22PlanParts
	np []int32
}

var c22Templates = []c22Template{
	{"both", []string{"b", "a/../b"}, nil, -1, nil},
	{"both", []string{"t", "t/0", "t/1"}, nil, -1, nil},
	{"both", []string{"t", "t/partitions/0"}, nil, 0, nil},
	{"both", []string{"a", "a//b", "a/b", "a/./b"}, nil, -1, nil},
	{"both", []string{"a", "a/", "./a"}, nil, -1, nil},
	{"both", []string{"0", ".", "/"}, nil, -1, nil},
	{"both", []string{"b", "../default/b", ".."}, nil, -1, nil},
	{"mem", []string{"a", "a:b", "a:0"}, nil, 0, nil},
	{"mem", []string{"a:b", "b"}, []string{"g", "g:a"}, -1, nil},
	{"etcd", []string{"x/offsets/b", "b"}, []string{"g", "g/offsets/x"}, -1, nil},
	{"etcd", []string{"x/offsets/b", "b"}, nil, 1, nil},
	{"etcd", []string{"t", "t/x"}, nil, 0, nil},
	{"etcd", []string{"b", "b/partitions"}, nil, 1, nil},
	{"etcd", []string{"t", "t/partitions/0", "t/partitions/1"}, nil, 1, nil},
	{"both", []string{"t", "t2", "T", "t.2", "t_2"}, nil, 0, nil},
	{"both", []string{c22Long("k", 249), c22Long("k", 248) + "y", c22Long("k", 200)}, nil, 0, nil},
	{"both", []string{"a.b", "a_b", "a-b", "A.B"}, nil, 1, nil},
	{"both", []string{"t", "t:0", "t%2F0", "t 0", "t\\0"}, nil, 0, nil},
	// families of LEGAL names in which one name is another plus digits (in front or behind, with or
	// without '-', '.', '_'), on topics with enough partitions that name+number of one pair reads like
	// name+number of another pair ("t1"+"0" / "t"+"10", "1"+"1a" / "11"+"a") or like the other name itself
	{"both", []string{"t", "t1", "t2"}, nil, -1, []int32{25, 3, 6}},
	{"both", []string{"ev", "ev1", "ev-1", "ev.1", "ev_1"}, nil, 1, []int32{14, 1, 2, 2, 2}},
	{"both", []string{"a", "1a", "a1", "a12"}, nil, -1, []int32{20, 4, 13, 2}},
	{"both", []string{"m-", "m-1", "m.", "m.2", "m"}, nil, 0, []int32{16, 6, 24, 4, 3}},
}

func c22TemplatesFor(kind string) []c22Template {
	var out []c22Template
	for _, t := range c22Templates {
		if t.kinds == "both" || t.kinds == kind {
			out = append(out, t)
		}
	}
	return out
}

func c22GenCase(rng *rand.Rand, kind string, ns string, ci int) *c22Case {
	tpl := c22TemplatesFor(kind)
	if ci < len(tpl) {
		c := &c22Case{AutoParts: 2, Family: tpl[ci].np != nil}
		for i, n := range tpl[ci].names {
			g := "g"
			if i < len(tpl[ci].groups) {
				g = tpl[ci].groups[i]
			}
			c.Specs = append(c.Specs, c22TopicSpec{Name: n, Via: c22Vias[rng.Intn(len(c22Vias))], Group: g, NP: 2, Parts: []int32{0, 1}})
		}
		if c.Family {
			c.AutoParts = 11 + int32(rng.Intn(15))
			for i := range c.Specs {
				c.Specs[i].NP = tpl[ci].np[i]
				if c.Specs[i].Via != "create_topics" {
					c.Specs[i].NP = c.AutoParts
				}
			}
			c22PlanParts(rng, c)
		}
		c.Steps = c22GenSteps(rng, kind, c.Specs, tpl[ci].del, false)
		return c
	}
	// every 4th generated case of the InMemoryStore part (every 2nd of the much shorter EtcdStore part) is a digit family
	if k := ci - len(tpl); kind == "mem" && k%4 == 3 || kind == "etcd" && k%2 == 1 {
		c := c22GenFamily(rng, kind)
		c.Steps = c22GenSteps(rng, kind, c.Specs, -1, true)
		return c
	}
	c := &c22Case{AutoParts: 2, Specs: c22GenNames(rng, kind, ns)}
	c.Steps = c22GenSteps(rng, kind, c.Specs, -1, true)
	return c
}

// ---------------------------------------------------------------- digit families

var c22FamBases = []string{"t", "a", "orders", "log", "x1", "0", "Ab", "ev.log", "q_"}
var c22FamDigits = []string{"1", "2", "1", "2", "3", "10", "12", "0", "20", "7"}
var c22FamSeps = []string{"", "", "", "-", ".", "_"}

func c22AllDigits(s string) bool {
	if s == "" {
		return false
	}
	for i := 0; i < len(s); i++ {
		if s[i] < '0' || s[i] > '9' {
			return false
		}
	}
	return true
}

// c22GenFamily: 2-5 legal names around one base name x - x itself, x+digits, x+sep+digits,
// digits+x, digits+sep+x, x+sep, x+digits+digits - created with 1..3 or 11..25 partitions
// (auto-created ones get the case's auto-create count, 11..25).
func c22GenFamily(rng *rand.Rand, kind string) *c22Case {
	c := &c22Case{Family: true, AutoParts: 11 + int32(rng.Intn(15))}
	x := c22FamBases[rng.Intn(len(c22FamBases))]
	k := 2 + rng.Intn(4)
	if kind == "etcd" {
		k = 2 + rng.Intn(2)
	}
	seen := map[string]bool{}
	add := func(name string) {
		if seen[name] || metadataNameTooLong(name) {
			return
		}
		seen[name] = true
		sp := c22TopicSpec{Name: name, Via: c22Vias[rng.Intn(len(c22Vias))], Group: "g"}
		switch v := rng.Intn(8); {
		case v < 5:
			sp.NP = 11 + int32(rng.Intn(15))
		case v < 7:
			sp.NP = 1 + int32(rng.Intn(3))
		default:
			sp.NP = c.AutoParts
		}
		if sp.Via != "create_topics" {
			sp.NP = c.AutoParts
		}
		c.Specs = append(c.Specs, sp)
	}
	if rng.Intn(10) < 8 {
		add(x)
	}
	last := x
	for tries := 0; len(c.Specs) < k && tries < 40; tries++ {
		d := c22FamDigits[rng.Intn(len(c22FamDigits))]
		sep := c22FamSeps[rng.Intn(len(c22FamSeps))]
		var name string
		switch rng.Intn(8) {
		case 0, 1, 2:
			name = x + sep + d
		case 3:
			name = d + sep + x
		case 4:
			name = x + []string{"-", ".", "_"}[rng.Intn(3)]
		case 5:
			name = last + d // one more digit on a name of the family: "t1" and "t12"
		case 6:
			name = d + last
		default:
			name = x + d
		}
		add(name)
		last = name
	}
	rng.Shuffle(len(c.Specs), func(i, j int) { c.Specs[i], c.Specs[j] = c.Specs[j], c.Specs[i] })
	c22PlanParts(rng, c)
	return c
}

func metadataNameTooLong(name string) bool { return len(name) > 200 }

// c22ConcatPairs: the partitions pa of topic a and pb of topic b (both within the partition counts) for which
// a+pa and b+pb (a = b+digits), or pa+a and pb+b (a = digits+b), are the same string; and, for a = b+[sep]+digits
// or a = digits+[sep]+b, the partition of b whose number is that digit string (the NAME a reads like b's partition).
func c22ConcatPairs(a, b string, npa, npb int32) (out [][3]int32) {
	const (
		suffix = 0
		prefix = 1
		isPart = 2
	)
	if len(a) <= len(b) {
		return nil
	}
	trimSep := func(s string, front bool) string {
		if s != "" && front && strings.ContainsRune("-._", rune(s[0])) {
			return s[1:]
		}
		if s != "" && !front && strings.ContainsRune("-._", rune(s[len(s)-1])) {
			return s[:len(s)-1]
		}
		return s
	}
	if strings.HasPrefix(a, b) {
		rest := a[len(b):]
		if c22AllDigits(rest) && rest[0] != '0' {
			for pa := int32(0); pa < npa; pa++ {
				if v, err := strconv.Atoi(rest + strconv.Itoa(int(pa))); err == nil && int32(v) < npb {
					out = append(out, [3]int32{pa, int32(v), suffix})
				}
			}
		}
		if d := trimSep(rest, true); c22AllDigits(d) && (d == "0" || d[0] != '0') {
			if v, err := strconv.Atoi(d); err == nil && int32(v) < npb {
				out = append(out, [3]int32{-1, int32(v), isPart})
			}
		}
	}
	if strings.HasSuffix(a, b) {
		rest := a[:len(a)-len(b)]
		if c22AllDigits(rest) {
			for pa := int32(1); pa < npa; pa++ {
				if v, err := strconv.Atoi(strconv.Itoa(int(pa)) + rest); err == nil && int32(v) < npb {
					out = append(out, [3]int32{pa, int32(v), prefix})
				}
			}
		}
		if d := trimSep(rest, false); c22AllDigits(d) && (d == "0" || d[0] != '0') {
			if v, err := strconv.Atoi(d); err == nil && int32(v) < npb {
				out = append(out, [3]int32{-1, int32(v), isPart})
			}
		}
	}
	return out
}

var c22PairHow = []string{"name+number", "number+name", "name_reads_like_partition"}

// c22PlanParts chooses the workload partitions of a family case: up to 4 per topic, first the
// partners found by c22ConcatPairs (a random selection of them), then random other partitions so
// that every topic with more than one partition uses at least two.
func c22PlanParts(rng *rand.Rand, c *c22Case) {
	var cand []c22Pair
	for ai, a := range c.Specs {
		for bi, b := range c.Specs {
			if ai == bi {
				continue
			}
			for _, p := range c22ConcatPairs(a.Name, b.Name, a.NP, b.NP) {
				cand = append(cand, c22Pair{A: ai, PA: p[0], B: bi, PB: p[1], How: c22PairHow[p[2]]})
			}
		}
	}
	rng.Shuffle(len(cand), func(i, j int) { cand[i], cand[j] = cand[j], cand[i] })
	// pairs of two partitions first (at most 4), then "name reads like a partition" pairs into the room left
	sort.SliceStable(cand, func(i, j int) bool { return cand[i].PA >= 0 && cand[j].PA < 0 })
	parts := make([]map[int32]bool, len(c.Specs))
	for i := range parts {
		parts[i] = map[int32]bool{}
	}
	for i := range c.Specs {
		c.Specs[i].Parts = nil
	}
	use := func(ti int, p int32) {
		if !parts[ti][p] {
			parts[ti][p] = true
			c.Specs[ti].Parts = append(c.Specs[ti].Parts, p)
		}
	}
	room := func(ti int, p int32) bool { return parts[ti][p] || len(parts[ti]) < 4 }
	for _, p := range cand {
		if len(c.Pairs) >= 6 || len(c.Pairs) >= 4 && p.PA >= 0 {
			continue
		}
		if p.PA < 0 {
			// the partner is the topic as a whole: any of its partitions, preferably a low one
			p.PA = int32(rng.Intn(int(min(c.Specs[p.A].NP, 2))))
		}
		if !room(p.A, p.PA) || !room(p.B, p.PB) {
			continue
		}
		use(p.A, p.PA)
		use(p.B, p.PB)
		c.Pairs = append(c.Pairs, p)
	}
	for ti := range c.Specs {
		np := c.Specs[ti].NP
		want := 2
		if np < 2 {
			want = 1
		}
		for tries := 0; len(parts[ti]) < want && tries < 100; tries++ {
			switch rng.Intn(4) {
			case 0:
				use(ti, 0)
			case 1:
				use(ti, min(1, np-1))
			case 2:
				use(ti, np-1)
			default:
				use(ti, int32(rng.Intn(int(np))))
			}
		}
		for _, p := range c.Specs[ti].Parts {
			if p < 0 || p >= np {
				panic(fmt.Sprintf("c22PlanParts: partition %d outside 0..%d of %q", p, np-1, c.Specs[ti].Name))
			}
		}
	}
}

func c22GenNames(rng *rand.Rand, kind string, ns string) []c22TopicSpec {
	x := c22Bases[rng.Intn(len(c22Bases))]
	y := c22Bases[rng.Intn(len(c22Bases))]
	for y == x {
		y = c22Bases[rng.Intn(len(c22Bases))]
	}
	k := 2 + rng.Intn(3)
	if kind == "etcd" {
		k = 2 + rng.Intn(2)
	}
	seen := map[string]bool{}
	var specs []c22TopicSpec
	add := func(name, group string) {
		if seen[name] || !utf8.ValidString(name) {
			return
		}
		seen[name] = true
		specs = append(specs, c22TopicSpec{Name: name, Via: c22Vias[rng.Intn(len(c22Vias))], Group: group, NP: 2, Parts: []int32{0, 1}})
	}
	if rng.Intn(10) < 7 {
		add(x, "g")
	}
	for tries := 0; len(specs) < k && tries < 40; tries++ {
		want := "unsafe"
		switch v := rng.Intn(100); {
		case v < 40:
			want = "unsafe"
		case v < 55:
			want = "sep"
		case v < 70:
			want = "odd"
		default:
			want = "safe"
		}
		xf := c22Xfs[rng.Intn(len(c22Xfs))]
		if xf.group != want {
			continue
		}
		a, b := x, y
		if rng.Intn(4) == 0 {
			a, b = y, x
		}
		add(xf.f(a, b, ns), "g")
	}
	// counterpart (group, topic) whose joined consumer-offset key coincides
	for i := range specs {
		n := specs[i].Name
		if rng.Intn(2) == 0 {
			continue
		}
		if j := strings.Index(n, ":"); kind == "mem" && j > 0 && j < len(n)-1 && !strings.Contains(n[j+1:], ":") {
			add(n[j+1:], "g:"+n[:j])
			for q := range specs {
				if specs[q].Name == n[j+1:] {
					specs[q].Group = "g:" + n[:j]
				}
			}
		}
		if j := strings.Index(n, "/offsets/"); kind == "etcd" && j > 0 {
			rest := n[j+len("/offsets/"):]
			if rest != "" && !strings.Contains(rest, "/") {
				add(rest, "g/offsets/"+n[:j])
				for q := range specs {
					if specs[q].Name == rest {
						specs[q].Group = "g/offsets/" + n[:j]
					}
				}
			}
		}
	}
	// a separator-carrying group name is only used as the counterpart of an accepted TOPIC name that
	// carries the separator; if its embedded part is itself a (legal) topic of the case, effects between
	// that topic and the counterpart would be due to the group name alone - not C22's subject (C16/C17)
	for i := range specs {
		for _, pre := range []string{"g:", "g/offsets/"} {
			if strings.HasPrefix(specs[i].Group, pre) && seen[strings.TrimPrefix(specs[i].Group, pre)] {
				specs[i].Group = "g"
			}
		}
	}
	rng.Shuffle(len(specs), func(i, j int) { specs[i], specs[j] = specs[j], specs[i] })
	return specs
}

// c22GenSteps: per-topic operation lists, then a random order-preserving
// interleaving with restarts. lastDelete >= 0: that topic is deleted after all
// other operations; randomDeletes: a quarter of the topics end with a delete.
func c22GenSteps(rng *rand.Rand, kind string, specs []c22TopicSpec, lastDelete int, randomDeletes bool) []c22Step {
	per := make([][]c22Step, len(specs))
	for ti := range specs {
		var ops []c22Step
		ops = append(ops, c22Step{Kind: "create", T: ti})
		seq := 0
		np := 2 + rng.Intn(3)
		if kind == "etcd" {
			np = 2 + rng.Intn(5)/4
		}
		// every workload partition gets a produce and a commit; the remaining produces go to any of them
		parts := specs[ti].Parts
		np += len(parts) - 2
		var body []c22Step
		for i := 0; i < np; i++ {
			var p int32
			if i < len(parts) {
				p = parts[i]
			} else {
				p = parts[rng.Intn(len(parts))]
			}
			seq++
			body = append(body, c22Step{Kind: "produce", T: ti, P: p, N: 1 + rng.Intn(3), Seq: seq})
		}
		for j, p := range parts {
			switch j {
			case 0:
				body = append(body, c22Step{Kind: "commit", T: ti, P: p, Off: int64(100*(ti+1) + rng.Intn(50))})
			case 1:
				body = append(body, c22Step{Kind: "commit", T: ti, P: p, Off: int64(1000*(ti+1) + rng.Intn(500))})
			default:
				body = append(body, c22Step{Kind: "commit", T: ti, P: p, Off: int64(100000*j + 1000*(ti+1) + rng.Intn(500))})
			}
		}
		body = append(body, c22Step{Kind: "alter", T: ti, Val: fmt.Sprint(60000*(ti+1) + rng.Intn(1000))})
		rng.Shuffle(len(body), func(i, j int) { body[i], body[j] = body[j], body[i] })
		ops = append(ops, body...)
		if randomDeletes && rng.Intn(4) == 0 {
			ops = append(ops, c22Step{Kind: "delete", T: ti})
		}
		per[ti] = ops
	}
	var steps []c22Step
	idx := make([]int, len(per))
	for {
		var open []int
		for ti := range per {
			if idx[ti] < len(per[ti]) {
				// weight by remaining length so that no topic finishes long before the others
				open = append(open, ti)
			}
		}
		if len(open) == 0 {
			break
		}
		ti := open[rng.Intn(len(open))]
		// run short bursts so that first-touch orders vary
		burst := 1 + rng.Intn(3)
		for b := 0; b < burst && idx[ti] < len(per[ti]); b++ {
			steps = append(steps, per[ti][idx[ti]])
			idx[ti]++
		}
		if rng.Intn(9) == 0 {
			steps = append(steps, c22Step{Kind: "restart", T: -1})
		}
	}
	// one restart near the end so that every log is reopened over everything that was written
	pos := len(steps) - rng.Intn(3)
	if pos < 0 {
		pos = 0
	}
	full := "full" // EtcdStore part: a third of the cases reload the topic snapshot through a new store client (0.2 s each)
	if kind == "etcd" && rng.Intn(3) != 0 {
		full = ""
	}
	steps = append(steps[:pos], append([]c22Step{{Kind: "restart", T: -1, Val: full}}, steps[pos:]...)...)
	// a delete must stay the last operation of its topic: the insertion above never reorders topic steps
	if lastDelete >= 0 {
		steps = append(steps, c22Step{Kind: "delete", T: lastDelete}, c22Step{Kind: "restart", T: -1})
	}
	return steps
}

// ---------------------------------------------------------------- world

type c22EtcdEv struct {
	Type string `json:"type"`
	Key  string `json:"key"`
}

var c22Wall = map[string]time.Duration{}

func c22Timed(name string, t0 time.Time) { c22Wall[name] += time.Since(t0) }

type c22Etcd struct {
	endpoints []string
	cli       *clientv3.Client
	cancel    context.CancelFunc
	ch        clientv3.WatchChan
	n         int
}

const c22Sentinel = "/kafscale-verif-sentinel"

func c22StartEtcd(t *testing.T) *c22Etcd {
	if d, err := os.MkdirTemp("/dev/shm", "verif-c22-"); err == nil {
		t.Cleanup(func() { os.RemoveAll(d) })
		t.Setenv("TMPDIR", d)
	} else if d := os.Getenv("VERIF_SCRATCH"); d != "" {
		t.Setenv("TMPDIR", d)
	}
	eps := testutil.StartEmbeddedEtcd(t)
	cli, err := clientv3.New(clientv3.Config{Endpoints: eps, DialTimeout: 5 * time.Second})
	if err != nil {
		t.Fatalf("etcd client: %v", err)
	}
	t.Cleanup(func() { cli.Close() })
	ctx, cancel := context.WithCancel(context.Background())
	e := &c22Etcd{endpoints: eps, cli: cli, cancel: cancel}
	e.ch = cli.Watch(ctx, "/kafscale", clientv3.WithPrefix())
	t.Cleanup(cancel)
	return e
}

// sync returns every key event under /kafscale since the previous sync (the
// sentinel write delimits them: one watch stream delivers in revision order).
func (e *c22Etcd) sync() ([]c22EtcdEv, bool) {
	defer c22Timed("etcd_sync", time.Now())
	e.n++
	want := fmt.Sprint(e.n)
	ctx, cancel := context.WithTimeout(context.Background(), 10*time.Second)
	_, err := e.cli.Put(ctx, c22Sentinel, want)
	cancel()
	if err != nil {
		return nil, false
	}
	var out []c22EtcdEv
	deadline := time.After(20 * time.Second)
	for {
		select {
		case resp, ok := <-e.ch:
			if !ok || resp.Err() != nil {
				return out, false
			}
			done := false
			for _, ev := range resp.Events {
				k := string(ev.Kv.Key)
				if k == c22Sentinel {
					if string(ev.Kv.Value) == want {
						done = true
					}
					continue
				}
				typ := "PUT"
				if ev.Type == clientv3.EventTypeDelete {
					typ = "DELETE"
				}
				out = append(out, c22EtcdEv{typ, k})
			}
			if done {
				return out, true
			}
		case <-deadline:
			return out, false
		}
	}
}

func (e *c22Etcd) wipe() bool {
	ctx, cancel := context.WithTimeout(context.Background(), 10*time.Second)
	defer cancel()
	_, err := e.cli.Delete(ctx, "/kafscale/", clientv3.WithPrefix())
	if err != nil {
		return false
	}
	_, ok := e.sync()
	return ok
}

type c22Member struct {
	id  string
	gen int32
	ok  bool
}

type c22World struct {
	kind            string
	s3              *vS3
	etcd            *c22Etcd
	store           metadata.Store
	h               *handler
	inst            *instance
	cacheOn         bool
	corr            int32
	suspect         string // non-empty: the environment misbehaved (slow / failing etcd); nothing of this run is judged
	members         map[string]c22Member
	nInst           int
	fallbackCommits int
	autoParts       int32 // partition count of auto-created topics
}

func c22NewWorld(kind string, e *c22Etcd, cacheOn bool, autoParts int32) (*c22World, error) {
	w := &c22World{kind: kind, s3: newVS3(), etcd: e, cacheOn: cacheOn, members: map[string]c22Member{}, autoParts: autoParts}
	if kind == "etcd" {
		if !e.wipe() {
			return nil, fmt.Errorf("etcd wipe/sync failed")
		}
	}
	if err := w.boot(); err != nil {
		return nil, err
	}
	return w, nil
}

func (w *c22World) boot() error {
	defer c22Timed(w.kind+"_boot", time.Now())
	meta := metadataForBroker(c22Broker)
	meta.Topics = nil
	switch w.kind {
	case "mem":
		if w.store == nil { // the metadata service outlives a broker restart
			w.store = metadata.NewInMemoryStore(meta)
		}
	case "etcd":
		if w.store != nil {
			break
		}
		t0 := time.Now()
		st, err := metadata.NewEtcdStore(context.Background(), meta, metadata.EtcdStoreConfig{Endpoints: w.etcd.endpoints})
		c22Timed("etcd_new_store", t0)
		if err != nil {
			return err
		}
		w.store = st
	}
	w.inst = &instance{id: w.nInst}
	w.nInst++
	view := &s3View{v: w.s3, inst: w.inst}
	h := newHandler(w.store, view, c22Broker, discardLogger())
	h.flushOnAck = true
	h.autoCreateTopics = true
	h.autoCreatePartitions = w.autoParts
	h.allowAdminAPIs = true
	h.logConfig.Buffer = storage.WriteBufferConfig{MaxBytes: 1 << 30}
	h.logConfig.Segment.IndexIntervalMessages = 1
	h.logConfig.ReadAheadSegments = 0
	if w.cacheOn {
		h.cache = cache.NewSegmentCache(8 << 20)
		h.logConfig.CacheEnabled = true
	} else {
		h.logConfig.CacheEnabled = false
	}
	h.s3Health = broker.NewS3HealthMonitor(broker.S3HealthConfig{ErrorWarn: 2, ErrorCrit: 3, LatencyWarn: time.Hour, LatencyCrit: 2 * time.Hour})
	w.h = h
	return nil
}

func (w *c22World) shutdown() { w.shutdownHandler(true) }

func (w *c22World) shutdownHandler(closeStore bool) {
	if w.h == nil {
		return
	}
	defer c22Timed(w.kind+"_shutdown", time.Now())
	if w.h.leaseManager != nil {
		w.h.leaseManager.ReleaseAll()
	}
	if w.h.groupLeaseManager != nil {
		w.h.groupLeaseManager.ReleaseAll()
	}
	w.h.coordinator.Stop()
	if es, ok := w.store.(*metadata.EtcdStore); ok && closeStore {
		es.Close()
		w.store = nil
	}
	w.h = nil
}

// restart: a new handler (new partition logs, restored from the object store,
// new coordinator, new lease sessions). full: also a new EtcdStore client that
// reloads the topic snapshot from etcd (the in-memory "metadata service" always
// outlives the broker).
func (w *c22World) restart(full bool) error {
	w.shutdownHandler(full)
	w.members = map[string]c22Member{}
	return w.boot()
}

// guard marks the run as not judgeable when a call took long enough for one of
// the stores' 3 s etcd timeouts to have fired, or etcd reported an error. Wall
// clock is only ever used to DISCARD a run, never to convict.
func (w *c22World) guard(t0 time.Time) {
	if w.kind != "etcd" {
		return
	}
	if d := time.Since(t0); d > 1500*time.Millisecond {
		w.suspect = fmt.Sprintf("a handler call took %v", d)
	}
	if es, ok := w.store.(*metadata.EtcdStore); ok && !es.Available() {
		w.suspect = "EtcdStore reports etcd unavailable"
	}
}

func (w *c22World) call(key, ver int16, req kmsg.Request, resp kmsg.Response) (err error) {
	w.corr++
	t0 := time.Now()
	defer w.guard(t0)
	defer c22Timed(w.kind+"_handler_calls", t0)
	var payload []byte
	func() {
		defer func() {
			if p := recover(); p != nil {
				err = fmt.Errorf("panic: %v", p)
			}
		}()
		payload, err = w.h.Handle(context.Background(), &protocol.RequestHeader{APIKey: key, APIVersion: ver, CorrelationID: w.corr}, req)
	}()
	if err != nil {
		return err
	}
	resp.SetVersion(ver)
	return resp.ReadFrom(skipRespHeader(payload, resp.IsFlexible()))
}

func (w *c22World) exec(rq plogReq) plogRes {
	w.corr++
	t0 := time.Now()
	defer w.guard(t0)
	defer c22Timed(w.kind+"_handler_calls", t0)
	return plogExec(w.h, w.inst, 0, int(w.corr), rq)
}

func (w *c22World) listTopics() (map[string]int, error) {
	req := kmsg.NewPtrMetadataRequest()
	req.Topics = nil
	resp := kmsg.NewPtrMetadataResponse()
	if err := w.call(protocol.APIKeyMetadata, 4, req, resp); err != nil {
		return nil, err
	}
	out := map[string]int{}
	for _, t := range resp.Topics {
		if t.Topic != nil && t.ErrorCode == 0 {
			out[*t.Topic] = len(t.Partitions)
		}
	}
	return out, nil
}

func c22Batch(tag string, n int) []byte {
	h := fnv.New64a()
	h.Write([]byte(tag))
	return mkBatch(rand.New(rand.NewSource(int64(h.Sum64()))), tag, n, 6)
}

func c22Tag(caseID string, t int, p int32, seq int) string {
	return fmt.Sprintf("%s.t%d.p%d.s%d", caseID, t, p, seq)
}

// readback fetches partition p of topic from offset 0 to the end and returns
// "offset=tag#i" of every record.
func (w *c22World) readback(topic string, p int32) ([]string, string) {
	var tags []string
	off := int64(0)
	for iter := 0; iter < 64; iter++ {
		res := w.exec(plogReq{Kind: "fetch", Topic: topic, Partition: p, Offset: off, MaxBytes: 1 << 24})
		if res.Err != "" {
			return tags, "fetch: " + res.Err
		}
		if res.Code != 0 {
			return tags, fmt.Sprintf("fetch at %d: error code %d", off, res.Code)
		}
		if len(res.Records) == 0 {
			return tags, ""
		}
		b := res.Records
		last := int64(-1)
		for len(b) > 0 {
			x, n, err := kbatch.Decode(b)
			if err != nil {
				return tags, fmt.Sprintf("fetch at %d: undecodable batch: %v", off, err)
			}
			for _, rec := range x.Records {
				abs := x.BaseOffset + int64(rec.OffsetDelta)
				if abs > last {
					last = abs
				}
				if abs < off {
					continue
				}
				v := string(rec.Value)
				if i := strings.Index(v, ":"); i >= 0 {
					v = v[:i]
				}
				tags = append(tags, fmt.Sprintf("%d=%s", abs, v))
			}
			b = b[n:]
		}
		if last+1 <= off {
			return tags, fmt.Sprintf("fetch at %d made no progress", off)
		}
		off = last + 1
	}
	return tags, "read-back did not terminate"
}

func (w *c22World) join(group string) c22Member {
	if m, ok := w.members[group]; ok {
		return m
	}
	req := kmsg.NewPtrJoinGroupRequest()
	req.Group = group
	req.SessionTimeoutMillis = 3600 * 1000
	req.RebalanceTimeoutMillis = 3600 * 1000
	req.ProtocolType = "consumer"
	pr := kmsg.NewJoinGroupRequestProtocol()
	pr.Name = "range"
	req.Protocols = append(req.Protocols, pr)
	resp := kmsg.NewPtrJoinGroupResponse()
	m := c22Member{}
	if err := w.call(protocol.APIKeyJoinGroup, 2, req, resp); err == nil && resp.ErrorCode == 0 {
		m = c22Member{id: resp.MemberID, gen: resp.Generation, ok: true}
	}
	w.members[group] = m
	return m
}

// commit: OffsetCommit through the handler as a joined member; if the group
// protocol does not let us (member unknown after a restart, rebalance), the
// very store call the coordinator makes.
func (w *c22World) commit(group, topic string, p int32, off int64) bool {
	if m := w.join(group); m.ok {
		req := kmsg.NewPtrOffsetCommitRequest()
		req.Group = group
		req.MemberID = m.id
		req.Generation = m.gen
		rt := kmsg.NewOffsetCommitRequestTopic()
		rt.Topic = topic
		rp := kmsg.NewOffsetCommitRequestTopicPartition()
		rp.Partition = p
		rp.Offset = off
		rt.Partitions = append(rt.Partitions, rp)
		req.Topics = append(req.Topics, rt)
		resp := kmsg.NewPtrOffsetCommitResponse()
		if err := w.call(protocol.APIKeyOffsetCommit, 5, req, resp); err == nil && len(resp.Topics) == 1 && len(resp.Topics[0].Partitions) == 1 && resp.Topics[0].Partitions[0].ErrorCode == 0 {
			return true
		}
	}
	w.fallbackCommits++
	t0 := time.Now()
	err := w.store.CommitConsumerOffset(context.Background(), group, topic, p, off, "")
	w.guard(t0)
	return err == nil
}

func (w *c22World) committed(group, topic string, parts []int32) (map[int32]int64, string) {
	out := map[int32]int64{}
	req := kmsg.NewPtrOffsetFetchRequest()
	req.Group = group
	rt := kmsg.NewOffsetFetchRequestTopic()
	rt.Topic = topic
	rt.Partitions = append([]int32(nil), parts...)
	req.Topics = append(req.Topics, rt)
	resp := kmsg.NewPtrOffsetFetchResponse()
	if err := w.call(protocol.APIKeyOffsetFetch, 5, req, resp); err != nil {
		return out, "offset fetch: " + err.Error()
	}
	if resp.ErrorCode != 0 || len(resp.Topics) != 1 || len(resp.Topics[0].Partitions) != len(parts) {
		return out, fmt.Sprintf("offset fetch: code %d, %d topics", resp.ErrorCode, len(resp.Topics))
	}
	asked := map[int32]bool{}
	for _, p := range parts {
		asked[p] = true
	}
	for _, p := range resp.Topics[0].Partitions {
		if _, dup := out[p.Partition]; p.ErrorCode != 0 || !asked[p.Partition] || dup {
			return out, fmt.Sprintf("offset fetch partition %d: code %d", p.Partition, p.ErrorCode)
		}
		out[p.Partition] = p.Offset
	}
	return out, ""
}

func (w *c22World) alter(topic, val string) bool {
	req := kmsg.NewPtrAlterConfigsRequest()
	rr := kmsg.NewAlterConfigsRequestResource()
	rr.ResourceType = kmsg.ConfigResourceTypeTopic
	rr.ResourceName = topic
	rc := kmsg.NewAlterConfigsRequestResourceConfig()
	rc.Name = "retention.ms"
	v := val
	rc.Value = &v
	rr.Configs = append(rr.Configs, rc)
	req.Resources = append(req.Resources, rr)
	resp := kmsg.NewPtrAlterConfigsResponse()
	if err := w.call(protocol.APIKeyAlterConfigs, 1, req, resp); err != nil {
		return false
	}
	return len(resp.Resources) == 1 && resp.Resources[0].ErrorCode == 0
}

func (w *c22World) retention(topic string) (string, string) {
	req := kmsg.NewPtrDescribeConfigsRequest()
	rr := kmsg.NewDescribeConfigsRequestResource()
	rr.ResourceType = kmsg.ConfigResourceTypeTopic
	rr.ResourceName = topic
	rr.ConfigNames = []string{"retention.ms"}
	req.Resources = append(req.Resources, rr)
	resp := kmsg.NewPtrDescribeConfigsResponse()
	if err := w.call(protocol.APIKeyDescribeConfigs, 1, req, resp); err != nil {
		return "", "describe configs: " + err.Error()
	}
	if len(resp.Resources) != 1 || resp.Resources[0].ErrorCode != 0 {
		code := int16(-1)
		if len(resp.Resources) == 1 {
			code = resp.Resources[0].ErrorCode
		}
		return "", fmt.Sprintf("describe configs: code %d", code)
	}
	for _, c := range resp.Resources[0].Configs {
		if c.Name == "retention.ms" && c.Value != nil {
			return *c.Value, ""
		}
	}
	return "", "describe configs: retention.ms missing"
}

func (w *c22World) deleteTopic(topic string) bool {
	req := kmsg.NewPtrDeleteTopicsRequest()
	req.TopicNames = []string{topic}
	req.TimeoutMillis = 1000
	resp := kmsg.NewPtrDeleteTopicsResponse()
	if err := w.call(protocol.APIKeyDeleteTopics, 2, req, resp); err != nil {
		return false
	}
	return len(resp.Topics) == 1 && resp.Topics[0].ErrorCode == 0
}

// ---------------------------------------------------------------- run + monitors

type c22TState struct {
	spec      c22TopicSpec
	idx       int
	attempted bool
	accepted  bool
	rejectHow string
	retired   bool
	tainted   bool
	next      map[int32]int64 // by partition number (the workload partitions spec.Parts)
	tags      map[int32][]string
	hasCommit map[int32]bool
	committed map[int32]int64
	hasRet    bool
	ret       string
	done      map[string]bool
	s3W       map[string]bool
	s3Dirs    map[string]bool
	s3R       map[string]bool
	etcdPut   map[string]bool
}

func (ts *c22TState) live() bool { return ts.accepted && !ts.retired && !ts.tainted }
func (ts *c22TState) fullWorkload() bool {
	for _, p := range ts.spec.Parts {
		if !ts.done[fmt.Sprintf("p%d", p)] {
			return false
		}
	}
	return ts.done["commit"] && ts.done["alter"]
}

// lastPart: the partition an auto-creating first request names (partition 1 of the two-partition topics)
func (ts *c22TState) lastPart() int32 { return ts.spec.Parts[len(ts.spec.Parts)-1] }

type c22Dev struct {
	Step    int    `json:"step"`
	Trigger string `json:"after"`
	T       int    `json:"topic"`
	What    string `json:"what"`
	Detail  string `json:"detail"`
}

type c22Outcome struct {
	topics         []*c22TState
	devs           []c22Dev // first deviation of each topic
	trace          []string
	suspect        string
	foreignDeletes []string
	probes         int
	restarts       int
	fallback       int
}

func c22Dir(key string) string {
	if i := strings.LastIndex(key, "/"); i >= 0 {
		return key[:i+1]
	}
	return ""
}

func c22S3Events(v *vS3, from int) []vS3Event {
	v.mu.Lock()
	defer v.mu.Unlock()
	return append([]vS3Event(nil), v.events[from:]...)
}

// c22Run executes steps (only >= 0: just that topic's steps and the restarts).
func c22Run(w *c22World, specs []c22TopicSpec, steps []c22Step, only int, caseID string) *c22Outcome {
	out := &c22Outcome{}
	shared := map[string]bool{"/kafscale/metadata/snapshot": true}
	for i, sp := range specs {
		out.topics = append(out.topics, &c22TState{spec: sp, idx: i, next: map[int32]int64{}, tags: map[int32][]string{}, hasCommit: map[int32]bool{}, committed: map[int32]int64{}, done: map[string]bool{}, s3W: map[string]bool{}, s3Dirs: map[string]bool{}, s3R: map[string]bool{}, etcdPut: map[string]bool{}})
		shared[metadata.ConsumerGroupKey(sp.Group)] = true
	}
	isShared := func(k string) bool {
		if shared[k] {
			return true
		}
		for _, sp := range specs {
			if k == metadata.GroupLeasePrefix()+"/"+sp.Group {
				return true
			}
		}
		return false
	}
	s3Mark := 0
	// every attribute() ends with a sync, and so does the wipe at world creation: nothing is pending here
	begin := func() bool {
		s3Mark = w.s3.eventCount()
		return true
	}
	attribute := func(ts *c22TState, isStep bool) bool {
		for _, e := range c22S3Events(w.s3, s3Mark) {
			if ts == nil {
				continue
			}
			switch {
			case e.Op == "upload_segment" || e.Op == "upload_index":
				ts.s3W[e.Key] = true
				ts.s3Dirs[c22Dir(e.Key)] = true
			case e.Op == "list":
				ts.s3Dirs[e.Key] = true
			case strings.HasPrefix(e.Op, "download") && e.Outcome == "ok":
				ts.s3R[e.Key] = true
			}
		}
		s3Mark = w.s3.eventCount()
		if w.kind == "etcd" {
			evs, ok := w.etcd.sync()
			if !ok {
				w.suspect = "etcd watch sync failed"
				return false
			}
			for _, e := range evs {
				if isShared(e.Key) || ts == nil {
					continue
				}
				if e.Type == "PUT" {
					ts.etcdPut[e.Key] = true
					continue
				}
				// a DELETE: whose key was it?
				for _, o := range out.topics {
					if o != ts && o.etcdPut[e.Key] && !ts.etcdPut[e.Key] {
						out.foreignDeletes = append(out.foreignDeletes, fmt.Sprintf("operation on %q deleted etcd key %q written for %q", ts.spec.Name, e.Key, o.spec.Name))
					}
				}
			}
		}
		return true
	}

	check := func(ts *c22TState) (string, string) {
		for _, p := range ts.spec.Parts {
			res := w.exec(plogReq{Kind: "listoffsets", Topic: ts.spec.Name, Partition: p, Offset: -1})
			if res.Err != "" || res.Code != 0 {
				return "probe_error", fmt.Sprintf("ListOffsets(latest) p%d: err=%q code=%d", p, res.Err, res.Code)
			}
			if res.HW != ts.next[p] {
				return "next_offset", fmt.Sprintf("ListOffsets(latest) p%d = %d, the topic's own produces imply %d", p, res.HW, ts.next[p])
			}
		}
		for _, p := range ts.spec.Parts {
			got, errStr := w.readback(ts.spec.Name, p)
			want := ts.tags[p]
			foreign := ""
			mark := fmt.Sprintf(".t%d.", ts.idx)
			for _, g := range got {
				if !strings.Contains(g, mark) {
					foreign = g
					break
				}
			}
			if foreign != "" {
				return "readback_foreign_records", fmt.Sprintf("Fetch p%d returned record %q produced to another topic; read %v, own produces imply %v", p, foreign, got, want)
			}
			if errStr != "" {
				return "readback_error", fmt.Sprintf("p%d: %s (read so far %v, expected %v)", p, errStr, got, want)
			}
			if strings.Join(got, " ") != strings.Join(want, " ") {
				return "readback_mismatch", fmt.Sprintf("Fetch p%d read %v, own produces imply %v", p, got, want)
			}
		}
		if len(ts.hasCommit) > 0 {
			got, errStr := w.committed(ts.spec.Group, ts.spec.Name, ts.spec.Parts)
			if errStr != "" {
				return "probe_error", errStr
			}
			for _, p := range ts.spec.Parts {
				if ts.hasCommit[p] && got[p] != ts.committed[p] {
					return "committed_offset", fmt.Sprintf("OffsetFetch(group %q) p%d = %d, the topic's own last commit is %d", ts.spec.Group, p, got[p], ts.committed[p])
				}
			}
		}
		if ts.hasRet {
			got, errStr := w.retention(ts.spec.Name)
			if errStr != "" {
				return "probe_error", errStr
			}
			if got != ts.ret {
				return "config", fmt.Sprintf("DescribeConfigs retention.ms = %q, the topic's own last AlterConfigs set %q", got, ts.ret)
			}
		}
		return "", ""
	}

	for si, st := range steps {
		if w.suspect != "" {
			break
		}
		if only >= 0 && st.T >= 0 && st.T != only {
			continue
		}
		if st.Kind == "restart" {
			if !begin() {
				break
			}
			if err := w.restart(st.Val == "full"); err != nil {
				w.suspect = "restart: " + err.Error()
				break
			}
			out.restarts++
			out.trace = append(out.trace, fmt.Sprintf("%d restart", si))
			if !attribute(nil, true) {
				break
			}
		} else {
			ts := out.topics[st.T]
			if ts.attempted && !ts.accepted || ts.retired {
				continue
			}
			if !begin() {
				break
			}
			name := ts.spec.Name
			note := ""
			switch st.Kind {
			case "create":
				ts.attempted = true
				var how string
				switch ts.spec.Via {
				case "create_topics":
					req := kmsg.NewPtrCreateTopicsRequest()
					req.TimeoutMillis = 1000
					rt := kmsg.NewCreateTopicsRequestTopic()
					rt.Topic = name
					rt.NumPartitions = ts.spec.NP
					rt.ReplicationFactor = 1
					req.Topics = append(req.Topics, rt)
					resp := kmsg.NewPtrCreateTopicsResponse()
					if err := w.call(protocol.APIKeyCreateTopics, 2, req, resp); err != nil {
						how = "error: " + err.Error()
					} else if len(resp.Topics) == 1 {
						how = fmt.Sprintf("code %d", resp.Topics[0].ErrorCode)
					}
				case "produce":
					lp := ts.lastPart()
					tag := c22Tag(caseID, ts.idx, lp, 0)
					res := w.exec(plogReq{Kind: "produce", Topic: name, Partition: lp, Acks: -1, Batch: c22Batch(tag, 1)})
					how = fmt.Sprintf("produce p%d: err=%q code=%d base=%d", lp, res.Err, res.Code, res.Base)
					if res.Err == "" && res.Code == 0 {
						if res.Base != 0 {
							note = fmt.Sprintf("first produce to the new topic got base offset %d", res.Base)
						}
						ts.tags[lp] = append(ts.tags[lp], fmt.Sprintf("%d=%s#0", ts.next[lp], tag))
						ts.next[lp]++
					}
				case "metadata":
					req := kmsg.NewPtrMetadataRequest()
					rt := kmsg.NewMetadataRequestTopic()
					n := name
					rt.Topic = &n
					req.Topics = append(req.Topics, rt)
					resp := kmsg.NewPtrMetadataResponse()
					if err := w.call(protocol.APIKeyMetadata, 4, req, resp); err != nil {
						how = "error: " + err.Error()
					} else {
						how = "ok"
					}
				case "fetch":
					res := w.exec(plogReq{Kind: "fetch", Topic: name, Partition: ts.lastPart(), Offset: 0, MaxBytes: 1 << 20})
					how = fmt.Sprintf("fetch p%d: err=%q code=%d", ts.lastPart(), res.Err, res.Code)
				case "listoffsets":
					res := w.exec(plogReq{Kind: "listoffsets", Topic: name, Partition: ts.lastPart(), Offset: -2})
					how = fmt.Sprintf("listoffsets(earliest) p%d: err=%q code=%d", ts.lastPart(), res.Err, res.Code)
				}
				listed, err := w.listTopics()
				switch {
				case err != nil:
					ts.rejectHow = "metadata(all) failed: " + err.Error()
				case listed[name] == int(ts.spec.NP):
					ts.accepted = true
				case listed[name] != 0:
					ts.rejectHow = fmt.Sprintf("listed with %d partitions (workload expects %d)", listed[name], ts.spec.NP)
				default:
					ts.rejectHow = how
				}
				note = fmt.Sprintf("via %s -> %s; accepted=%v %s", ts.spec.Via, how, ts.accepted, note)
			case "produce":
				tag := c22Tag(caseID, ts.idx, st.P, st.Seq)
				res := w.exec(plogReq{Kind: "produce", Topic: name, Partition: st.P, Acks: -1, Batch: c22Batch(tag, st.N)})
				note = fmt.Sprintf("err=%q code=%d base=%d", res.Err, res.Code, res.Base)
				if res.Err == "" && res.Code == 0 {
					for i := 0; i < st.N; i++ {
						ts.tags[st.P] = append(ts.tags[st.P], fmt.Sprintf("%d=%s#%d", ts.next[st.P]+int64(i), tag, i))
					}
					// a base offset other than the model's shows up as next_offset / read-back deviation in the probe below
					ts.next[st.P] += int64(st.N)
					ts.done[fmt.Sprintf("p%d", st.P)] = true
				}
			case "commit":
				if w.commit(ts.spec.Group, name, st.P, st.Off) {
					ts.hasCommit[st.P] = true
					ts.committed[st.P] = st.Off
					ts.done["commit"] = true
				} else {
					note = "commit failed"
				}
			case "alter":
				if w.alter(name, st.Val) {
					ts.hasRet, ts.ret = true, st.Val
					ts.done["alter"] = true
				} else {
					note = "alter failed"
				}
			case "delete":
				if w.deleteTopic(name) {
					ts.retired = true
				} else {
					note = "delete failed"
				}
			}
			out.trace = append(out.trace, fmt.Sprintf("%d %s %q %s", si, st.String(), name, note))
			if !attribute(ts, true) {
				break
			}
		}
		// probe every live topic: nothing but its own operations may have changed it
		for _, ts := range out.topics {
			if !ts.live() || w.suspect != "" {
				continue
			}
			if only >= 0 && ts.idx != only {
				continue
			}
			if !begin() {
				break
			}
			what, detail := check(ts)
			out.probes++
			if !attribute(ts, false) {
				break
			}
			if what != "" {
				ts.tainted = true
				out.devs = append(out.devs, c22Dev{Step: si, Trigger: fmt.Sprintf("%s on %s", st.Kind, c22Q(c22StepTopic(specs, st))), T: ts.idx, What: what, Detail: detail})
				out.trace = append(out.trace, fmt.Sprintf("%d   DEVIATION of %q: %s: %s", si, ts.spec.Name, what, detail))
			}
		}
	}
	out.suspect = w.suspect
	out.fallback = w.fallbackCommits
	return out
}

func c22StepTopic(specs []c22TopicSpec, st c22Step) string {
	if st.T < 0 {
		return "(broker)"
	}
	return specs[st.T].Name
}

// ---------------------------------------------------------------- classification

func c22Intersect(a, b map[string]bool) []string {
	var out []string
	for k := range a {
		if b[k] {
			out = append(out, k)
		}
	}
	sort.Strings(out)
	return out
}

// c22Nested: keys written for a that lie under a directory of b which is not
// also a directory of a itself (that case is "same directory", judged separately).
func c22Nested(aKeys, bDirs, aDirs map[string]bool) []string {
	var out []string
	for k := range aKeys {
		for d := range bDirs {
			if aDirs[d] {
				continue
			}
			if d != "" && strings.HasSuffix(d, "/") && strings.HasPrefix(k, d) {
				out = append(out, k+" under "+d)
				break
			}
		}
	}
	sort.Strings(out)
	return out
}

// c22LegalSuffix marks a finding between two names that contain no path
// separator and no dot segment: such a pair is never covered by a known finding.
func c22LegalSuffix(a, b *c22TState) string {
	if c22UnsafeKind(a.spec.Name) == "" && c22UnsafeKind(b.spec.Name) == "" {
		return ":legal_looking_names"
	}
	return ""
}

// c22Q quotes a name for a one-line summary (long names abbreviated; the replay has them in full).
func c22Q(name string) string {
	if len(name) > 48 {
		return fmt.Sprintf("%q…(%d bytes)…%q", name[:16], len(name), name[len(name)-8:])
	}
	return fmt.Sprintf("%q", name)
}

func c22EtcdDirs(keys map[string]bool) map[string]bool {
	d := map[string]bool{}
	for k := range keys {
		d[c22Dir(k)] = true
	}
	return d
}

func c22WorseKind(a, b string) string {
	rank := map[string]int{"dotdot_segment": 4, "dot_segment": 3, "empty_segment": 2, "slash": 1, "": 0}
	ka, kb := c22UnsafeKind(a), c22UnsafeKind(b)
	if rank[kb] > rank[ka] {
		ka = kb
	}
	if ka == "" {
		return "legal_looking_names"
	}
	return ka
}

// c22Mechanism names HOW topic a was disturbed, from the relation between the
// names and the operation after which the deviation appeared. The key formats
// below mirror pkg/metadata for CLASSIFICATION only; the verdict itself comes
// from the observations.
func c22Mechanism(kind string, a *c22TState, dev c22Dev, trig c22Step, all []*c22TState) (string, *c22TState) {
	var cands []*c22TState
	if trig.T >= 0 && trig.T != a.idx {
		cands = []*c22TState{all[trig.T]}
	} else {
		for _, o := range all {
			if o != a && o.accepted {
				cands = append(cands, o)
			}
		}
	}
	for _, b := range cands {
		foreignTrigger := trig.T == b.idx
		switch {
		case foreignTrigger && trig.Kind == "delete":
			if kind == "mem" && strings.HasPrefix(a.spec.Name, b.spec.Name+":") {
				return "mem_delete_colon_prefix", b
			}
			// deleteTopicOffsets(b) removes the etcd prefix /kafscale/topics/<b>/; a's offsets live
			// under /kafscale/topics/<a>/partitions/<p>/ (hit for a = b+"/…", b = a+"/partitions", b = a+"/partitions/<p>")
			if kind == "etcd" {
				keys := []string{a.spec.Name + "/config"}
				for _, p := range a.spec.Parts {
					keys = append(keys, fmt.Sprintf("%s/partitions/%d/next_offset", a.spec.Name, p))
				}
				for _, k := range keys {
					if strings.HasPrefix(k, b.spec.Name+"/") {
						return "etcd_delete_slash_prefix", b
					}
				}
			}
			if kind == "etcd" && dev.What == "committed_offset" && strings.Contains(fmt.Sprintf("/kafscale/consumers/%s/offsets/%s/0", a.spec.Group, a.spec.Name), "/offsets/"+b.spec.Name+"/") {
				return "etcd_delete_offsets_infix", b
			}
		case foreignTrigger && trig.Kind == "commit":
			if kind == "mem" && fmt.Sprintf("%s:%s", a.spec.Group, a.spec.Name) == fmt.Sprintf("%s:%s", b.spec.Group, b.spec.Name) {
				return "mem_consumer_key_colon_join", b
			}
			if kind == "etcd" && fmt.Sprintf("%s/offsets/%s", a.spec.Group, a.spec.Name) == fmt.Sprintf("%s/offsets/%s", b.spec.Group, b.spec.Name) {
				return "etcd_consumer_key_slash_join", b
			}
		case trig.Kind == "produce" || trig.Kind == "restart" || trig.Kind == "create":
			legal := ""
			if c22UnsafeKind(a.spec.Name) == "" && c22UnsafeKind(b.spec.Name) == "" {
				legal = ":legal_looking_names"
			}
			if len(c22Intersect(a.s3Dirs, b.s3Dirs)) > 0 {
				return "s3_same_partition_dir" + legal, b
			}
			if len(c22Nested(b.s3W, a.s3Dirs, b.s3Dirs)) > 0 || len(c22Nested(a.s3W, b.s3Dirs, a.s3Dirs)) > 0 {
				return "s3_nested_partition_dir" + legal, b
			}
		}
	}
	who := "own_op"
	if trig.T < 0 {
		who = "restart"
	} else if trig.T != a.idx {
		who = "foreign_" + trig.Kind
	}
	return "unexplained:" + dev.What + ":after_" + who, nil
}

func c22PairStrings(c *c22Case) []string {
	var out []string
	for _, p := range c.Pairs {
		out = append(out, fmt.Sprintf("%s[%d] ~ %s[%d] (%s)", c.Specs[p.A].Name, p.PA, c.Specs[p.B].Name, p.PB, p.How))
	}
	return out
}

// ---------------------------------------------------------------- case driver

type c22Leg struct {
	r    *verifkit.Run
	kind string
	etcd *c22Etcd
}

// counters and sets of the EtcdStore part carry the prefix "etcd_"
func (l *c22Leg) n(name string) string {
	if l.kind == "etcd" {
		return "etcd_" + name
	}
	return name
}
func (l *c22Leg) count(name string, n int64) { l.r.Count(l.n(name), n) }
func (l *c22Leg) seen(set, member string)    { l.r.Seen(l.n(set), member) }

func (l *c22Leg) runCase(ci int) {
	r := l.r
	rng := r.Rand(ci)
	if l.kind == "etcd" {
		rng = r.Rand(1000000 + ci)
	}
	cs := c22GenCase(rng, l.kind, "default", ci)
	specs, steps := cs.Specs, cs.Steps
	cacheOn := rng.Intn(2) == 0
	caseID := fmt.Sprintf("c%d", ci)
	w, err := c22NewWorld(l.kind, l.etcd, cacheOn, cs.AutoParts)
	if err != nil {
		l.count("cases_abandoned_environment", 1)
		return
	}
	out := c22Run(w, specs, steps, -1, caseID)
	w.shutdown()
	if out.suspect != "" {
		l.count("cases_abandoned_environment", 1)
		r.Note(l.n("last_abandoned"), fmt.Sprintf("case %d: %s", ci, out.suspect))
		return
	}
	witness := func(extra map[string]any) map[string]any {
		m := map[string]any{"store": l.kind, "case": ci, "segment_cache": cacheOn, "topics": specs, "trace": out.trace}
		if cs.Family {
			m["auto_create_partitions"] = cs.AutoParts
			m["partition_pairs_that_read_alike"] = c22PairStrings(cs)
		}
		acc := map[string]string{}
		for _, ts := range out.topics {
			switch {
			case ts.accepted:
				acc[ts.spec.Name] = "accepted"
			case ts.attempted:
				acc[ts.spec.Name] = "rejected: " + ts.rejectHow
			default:
				acc[ts.spec.Name] = "not attempted"
			}
		}
		m["acceptance"] = acc
		for k, v := range extra {
			m[k] = v
		}
		return m
	}

	var accepted []*c22TState
	shapes := []string{}
	for _, ts := range out.topics {
		sh := c22Shape(ts.spec.Name)
		shapes = append(shapes, sh+"/"+ts.spec.Via)
		l.seen("name_shapes", sh)
		if !ts.attempted {
			continue
		}
		if ts.accepted {
			accepted = append(accepted, ts)
			l.count("topics_accepted", 1)
			l.count("accepted_via_"+ts.spec.Via, 1)
			l.seen("accepted_shapes", sh)
			l.count("s3_keys_written_observed", int64(len(ts.s3W)))
			l.count("etcd_keys_touched_observed", int64(len(ts.etcdPut)))
			// rule (5)
			if k := c22UnsafeKind(ts.spec.Name); k != "" {
				var keys []string
				for key := range ts.s3W {
					keys = append(keys, key)
				}
				sort.Strings(keys)
				r.Violation("unsafe_name_accepted:"+k, fmt.Sprintf("[%s] topic name %s (%s) was accepted via %s; S3 keys written for it: %v", l.kind, c22Q(ts.spec.Name), k, ts.spec.Via, keys), witness(map[string]any{"name": ts.spec.Name, "via": ts.spec.Via, "s3_keys": keys}))
			}
		} else {
			l.count("topics_rejected", 1)
			l.count("rejected_via_"+ts.spec.Via, 1)
			l.seen("rejected_shapes", sh)
		}
	}
	sort.Strings(shapes)
	full := 0
	for _, ts := range accepted {
		if ts.fullWorkload() {
			full++
		}
	}
	sig := l.kind + " " + strings.Join(shapes, " ")
	if cs.Family {
		// a family case is told apart by how its names relate and by which pairs were exercised
		var rel []string
		exercised := 0
		for _, p := range cs.Pairs {
			a, b := out.topics[p.A], out.topics[p.B]
			l.count("alike_partition_pairs_planned", 1)
			if a.accepted && b.accepted && a.done[fmt.Sprintf("p%d", p.PA)] && b.done[fmt.Sprintf("p%d", p.PB)] {
				exercised++
				l.count("alike_partition_pairs_produced_to_on_both_sides", 1)
				l.count("alike_pairs_"+p.How, 1)
				rel = append(rel, fmt.Sprintf("%s:%d/%d", p.How, p.PA, p.PB))
			}
		}
		sort.Strings(rel)
		sig = l.kind + " family " + strings.Join(shapes, " ") + " " + strings.Join(rel, " ")
		l.count("family_cases", 1)
		if exercised > 0 {
			l.count("family_cases_with_alike_pairs_exercised", 1)
		}
		for _, ts := range accepted {
			l.seen("family_partition_counts", fmt.Sprint(ts.spec.NP))
			for _, p := range ts.spec.Parts {
				if p >= 10 {
					l.count("family_partitions_ge_10_used", 1)
				}
			}
		}
	}
	r.Case(sig, full >= 2)
	l.count("probes", int64(out.probes))
	l.count("restarts", int64(out.restarts))
	l.count("commits_by_store_call_fallback", int64(out.fallback))
	if ntpl := len(c22TemplatesFor(l.kind)); ci == 0 || ci == ntpl || ci == ntpl-4 || ci == ntpl+3 {
		r.Sample(witness(nil)) // first template, first family template, first generated case, first generated family
	}

	// rules (1)-(3): key sets of every pair of accepted topics
	for i := 0; i < len(accepted); i++ {
		for j := i + 1; j < len(accepted); j++ {
			a, b := accepted[i], accepted[j]
			l.count("pairs_judged", 1)
			if a.fullWorkload() && b.fullWorkload() {
				l.count("pairs_judged_full_workload", 1)
			}
			pair := map[string]any{"a": a.spec.Name, "b": b.spec.Name}
			if sd := c22Intersect(a.s3Dirs, b.s3Dirs); len(sd) > 0 {
				sh := c22Intersect(a.s3W, b.s3W)
				pair["shared_s3_partition_dirs"] = sd
				pair["s3_objects_written_by_both"] = sh
				sum := fmt.Sprintf("[%s] topics %s and %s keep their segments in the same S3 directory %s", l.kind, c22Q(a.spec.Name), c22Q(b.spec.Name), c22Q(sd[0]))
				if len(sh) > 0 {
					sum += fmt.Sprintf("; both wrote object %s (%d objects written by both)", c22Q(sh[0]), len(sh))
					l.count("pairs_with_same_s3_object", 1)
				}
				r.Violation("s3_same_partition_dir:"+c22WorseKind(a.spec.Name, b.spec.Name), sum, witness(pair))
			}
			n1, n2 := c22Nested(a.s3W, b.s3Dirs, a.s3Dirs), c22Nested(b.s3W, a.s3Dirs, b.s3Dirs)
			if len(n1)+len(n2) > 0 {
				pair["nested_s3_keys"] = append(n1, n2...)
				inner, outer, ex := a, b, ""
				if len(n1) > 0 {
					ex = n1[0]
				} else {
					inner, outer, ex = b, a, n2[0]
				}
				var rd []string
				for k := range outer.s3R {
					if inner.s3W[k] && !outer.s3W[k] {
						rd = append(rd, k)
					}
				}
				sort.Strings(rd)
				pair["objects_of_inner_topic_downloaded_by_outer_topic"] = rd
				r.Violation("s3_key_under_foreign_partition_dir"+c22LegalSuffix(a, b), fmt.Sprintf("[%s] S3 key of topic %s lies in a partition directory of topic %s: %s", l.kind, c22Q(inner.spec.Name), c22Q(outer.spec.Name), ex), witness(pair))
			}
			if l.kind == "etcd" {
				if sh := c22Intersect(a.etcdPut, b.etcdPut); len(sh) > 0 {
					pair["shared_etcd_keys"] = sh
					r.Violation("etcd_same_key:"+c22WorseKind(a.spec.Name, b.spec.Name), fmt.Sprintf("topics %s and %s both wrote etcd key %s", c22Q(a.spec.Name), c22Q(b.spec.Name), c22Q(sh[0])), witness(pair))
				}
				n1, n2 := c22Nested(a.etcdPut, c22EtcdDirs(b.etcdPut), c22EtcdDirs(a.etcdPut)), c22Nested(b.etcdPut, c22EtcdDirs(a.etcdPut), c22EtcdDirs(b.etcdPut))
				if len(n1)+len(n2) > 0 {
					pair["nested_etcd_keys"] = append(n1, n2...)
					ex := append(n1, n2...)[0]
					r.Violation("etcd_key_under_foreign_dir"+c22LegalSuffix(a, b), fmt.Sprintf("etcd key of one of the topics %s / %s lies under a key directory of the other: %s", c22Q(a.spec.Name), c22Q(b.spec.Name), ex), witness(pair))
				}
			}
		}
	}

	// rule (4): deviations, charged to C22 only if the topic alone behaves
	for _, dev := range out.devs {
		a := out.topics[dev.T]
		l.count("deviations_seen", 1)
		cw, err := c22NewWorld(l.kind, l.etcd, cacheOn, cs.AutoParts)
		if err != nil {
			l.count("deviations_not_judged_environment", 1)
			continue
		}
		solo := c22Run(cw, specs, steps, a.idx, caseID)
		cw.shutdown()
		if solo.suspect != "" {
			l.count("deviations_not_judged_environment", 1)
			continue
		}
		if len(solo.devs) > 0 || !solo.topics[a.idx].accepted {
			// the topic misbehaves on its own: not a cross-topic effect, not C22's business
			l.count("deviations_also_in_control_run_not_charged", 1)
			r.Note(l.n("last_own_anomaly"), map[string]any{"topic": a.spec.Name, "store": l.kind, "solo_deviations": solo.devs})
			continue
		}
		l.count("control_runs_clean", 1)
		mech, culprit := c22Mechanism(l.kind, a, dev, steps[dev.Step], out.topics)
		extra := map[string]any{"victim": a.spec.Name, "deviation": dev, "control_run": "the same operations of the victim alone (incl. restarts): no deviation"}
		sum := fmt.Sprintf("[%s] topic %s after %s: %s", l.kind, c22Q(a.spec.Name), dev.Trigger, dev.Detail)
		if culprit != nil {
			extra["culprit"] = culprit.spec.Name
			extra["s3_objects_written_by_both"] = c22Intersect(a.s3W, culprit.s3W)
			extra["shared_s3_partition_dirs"] = c22Intersect(a.s3Dirs, culprit.s3Dirs)
			sum += fmt.Sprintf(" (other topic: %s)", c22Q(culprit.spec.Name))
		}
		if len(out.foreignDeletes) > 0 {
			extra["etcd_keys_deleted_by_other_topics_operations"] = out.foreignDeletes
		}
		if len(sum) > 900 {
			sum = sum[:900] + "…"
		}
		r.Violation("bleed:"+mech, sum, witness(extra))
	}
}

func TestVerifC22(t *testing.T) {
	r := verifkit.Start(t, "C22", "topics")
	defer func() {
		for k, v := range c22Wall {
			r.Note("wall_s_"+k, v.Seconds())
		}
		r.Finish(c22Rule,
			"fake S3 is an atomic read-after-write key/value store; object keys are compared byte-wise (a real S3 endpoint does not normalise keys either)",
			"acks=-1 with flush-on-ack, one producer, sequential requests, no faults: a deviation from a topic's own history that vanishes when the topic runs alone is caused by the other topics",
			"the cluster metadata snapshot key and per-group keys (group lease, group metadata) are cluster-/group-level by design and not attributed to topics",
			"EtcdStore part (counters prefixed etcd_): embedded single-node etcd, real time; a run in which a handler call took >1.5 s, the store reported etcd unavailable or the watch could not be synchronised is discarded, never judged",
			"names that are not valid UTF-8 are not generated (EtcdStore keeps the topic list as JSON)",
			"consumer group names are \"g\", or - only as the counterpart of a topic name that carries the store's separator - \"g:<x>\" / \"g/offsets/<x>\" with <x> not a topic of the case: effects that need nothing but a hostile GROUP name belong to C16/C17")
	}()
	// part 1: InMemoryStore
	mem := &c22Leg{r: r, kind: "mem"}
	n := r.N(264, 3600)
	for ci := 0; ci < n; ci++ {
		mem.runCase(ci)
	}
	r.Floor("pairs_judged", 40)
	r.Floor("alike_partition_pairs_produced_to_on_both_sides", 40)
	r.Floor("family_partitions_ge_10_used", 40)
	r.Floor("s3_keys_written_observed", 400)
	r.Floor("probes", 1000)

	// part 2: EtcdStore over an embedded etcd
	e := c22StartEtcd(t)
	et := &c22Leg{r: r, kind: "etcd", etcd: e}
	n = r.N(28, 200)
	deadline := time.Now().Add(4 * time.Minute)
	if r.Thorough() {
		deadline = time.Now().Add(20 * time.Minute)
	}
	for ci := 0; ci < n; ci++ {
		if time.Now().After(deadline) {
			r.Inconclusive(fmt.Sprintf("watchdog: only %d of %d etcd cases ran", ci, n))
			break
		}
		et.runCase(ci)
	}
	r.Floor("etcd_pairs_judged", 8)
	r.Floor("etcd_alike_partition_pairs_produced_to_on_both_sides", 6)
	r.Floor("etcd_etcd_keys_touched_observed", 60)
	r.Floor("etcd_probes", 100)
}

var _ = json.Marshal
