#!/usr/bin/env python3
"""Third-round seed prompt: one variant d, must use a mechanism different from the listed earlier ones."""
import json,sys,glob,os
pid=sys.argv[1]
props={json.loads(l)['id']:json.loads(l) for l in open('/verif/properties.jsonl')}
p=props[pid]
used=[]
for d in sorted(glob.glob(f'/verif/seeded/{pid}-*')):
    try:
        m=json.load(open(os.path.join(d,'meta.json')))
        used.append(f"- {str(m.get('what_it_breaks',''))[:400]} (files: {', '.join(m.get('files_touched',[]) if isinstance(m.get('files_touched'),list) else [])})")
    except Exception: pass
print(f"""You are a software engineer producing a *seeded defect* for a robustness study of the KafScale/platform repository (Go; a Kafka-compatible broker with S3-backed segments). You have your own scratch git worktree of the repository at /tmp/seed3-{pid} — work ONLY there. Never modify /repo, and do not read or list anything under /verif (the study depends on your work being independent of it). Never use `git stash` (it is shared between worktrees): save your patch with `git diff > file`, undo/redo with `git apply -R` / `git apply` / `git checkout -- .`.

The property under study ({pid}: {p['title']}):

{p['statement']}

Scope: {p['quantifier']['text']}
Relevant files: {', '.join(p['anchors']['files'])}

Earlier rounds of this study already used the following mechanisms for this property — yours must be DIFFERENT in kind (a different code site and a different way of going wrong), not a variation of these:
{chr(10).join(used) if used else '- (none)'}

Task: make ONE change to the repository's NON-TEST source code in your worktree that BREAKS this property while
 (1) everything still compiles (`go build ./...` in the module you touch; the processors under addons/processors/<name> are separate Go modules),
 (2) ALL existing tests still pass with your change — run at least the packages you touched and their main users (`GOFLAGS=-mod=mod GOPROXY=off go test -count=1 ./pkg/... ./cmd/... ./internal/...` in the main module, or the processor module's `./...`); if an unrelated etcd-based test flakes on this loaded box, re-run it,
 (3) the break needs something SPECIFIC to manifest — a particular interleaving of concurrent requests, a crash or S3/etcd fault at a particular point, a multi-step sequence of operations, an unusual input, or two cooperating code sites that each look fine alone — NOT something ordinary use or a smoke test exposes at once.
Make it look like a plausible refactoring / optimisation / cleanup mistake a real contributor could make.

Deliverables under /tmp/seed-{pid}-out/d/ :
  patch.diff   — `git diff` against HEAD, applies with `git apply` to a clean checkout
  demo_test.go — a Go test (say in a comment at the top which package directory it must be copied into and the `go test -run` command) that FAILS with the patch applied and PASSES without it
  meta.json    — {{"property": "{pid}", "what_it_breaks": "...", "needs_to_manifest": "...", "files_touched": [...], "how_demo_was_run": "...", "existing_tests_run": "..."}}
You have a hard limit of about 15 minutes of wall time: keep the change small and finish. Verify all of it yourself: demo fails with the patch and passes on clean HEAD; the existing tests pass with the patch. At the end restore the worktree to clean HEAD. No network; `GOFLAGS=-mod=mod GOPROXY=off`; the `go` on PATH works. Your final message: one paragraph describing the change, what it needs to manifest, and the exact commands you ran with their outcomes.""")
