#!/usr/bin/env python3
import json,sys
pid=sys.argv[1]
props={json.loads(l)['id']:json.loads(l) for l in open('/verif/properties.jsonl')}
p=props[pid]
print(f"""You are a software engineer producing *seeded defects* for a robustness study of the KafScale/platform repository (Go; a Kafka-compatible broker with S3-backed segments). You have your own scratch git worktree of the repository at /tmp/seed-{pid} — work ONLY there. Never modify /repo, and do not read or list anything under /verif (the study depends on your work being independent of it).

The property under study ({pid}: {p['title']}):

{p['statement']}

Scope: {p['quantifier']['text']}
Relevant files: {', '.join(p['anchors']['files'])}

Task: make a change to the repository's NON-TEST source code in your worktree that BREAKS this property while
 (1) everything still compiles (`go build ./...` in the module you touch),
 (2) ALL existing tests still pass with your change — run at least the packages you touched and their main users, e.g. `cd /tmp/seed-{pid} && GOFLAGS=-mod=mod GOPROXY=off go test -count=1 ./pkg/... ./cmd/... ./internal/...` (main module) or the processor module's `./...` if you work there; a change that makes an existing test fail is useless,
 (3) the break needs something SPECIFIC to manifest — a particular interleaving of concurrent requests, a crash or S3/etcd fault at a particular point, a multi-step sequence of operations, an unusual input, or two cooperating code sites that each look fine alone — NOT something that ordinary use or a smoke test exposes at once.
Make it look like a plausible refactoring / optimisation / cleanup mistake a real contributor could make. Produce TWO different changes if you can (variant a and variant b, different mechanisms), each independent (each patch applies to clean HEAD on its own).

Deliverables under /tmp/seed-{pid}-out/<a|b>/ :
  patch.diff   — `git diff` against HEAD, applies with `git apply` to a clean checkout
  demo_test.go — a Go test (say in a comment at the top which package directory it must be copied into and the `go test -run` command) or a small program, that FAILS with the patch applied and PASSES without it
  meta.json    — {{"property": "{pid}", "what_it_breaks": "...", "needs_to_manifest": "...", "files_touched": [...], "how_demo_was_run": "...", "existing_tests_run": "..."}}
Verify all of it yourself: demo fails with the patch and passes on clean HEAD; the existing tests pass with the patch. At the end restore the worktree to clean HEAD (`git checkout -- .`, delete untracked files). No network is available; use `GOFLAGS=-mod=mod GOPROXY=off`; the `go` on PATH works (it switches to go1.25.2). Builds are slow on this shared box (cmd/broker tests take ~40 s, first build minutes) — be patient. Your final message: for each variant, one paragraph describing the change, what it needs to manifest, and the exact commands you ran with their outcomes.""")
